"""Deterministic quantifier instantiation on index terms.

z3's own instantiation (E-matching / MBQI) is unstable on formulas that mix sequences and quantifiers: the same
obligation is `unsat` in 0.07 s in one run and `unknown` in the next.  The obligations generated here have a very regular
shape - universally quantified facts over integer indices (loop invariants, `all(... for j in range(...))`, element-wise
facts of comprehensions) and over a few value sorts (contract axioms) - so the instances that matter can be enumerated:
every bound variable is instantiated with the ground terms of its sort that occur at index / argument positions of the
goal (after skolemising it) and of the ground hypotheses.  The resulting problem is quantifier-free.  Instances are
consequences of the hypotheses, so a refutation of the instantiated problem is a proof of the obligation; failure to
refute it proves nothing and the caller falls back to the solver's own quantifier handling.
"""
from __future__ import annotations
import itertools
import z3


def _is_forall(e):
    return z3.is_quantifier(e) and e.is_forall()


def _is_universal(e):
    """forall, or an implication whose conclusion is universal (guarded universal fact)"""
    while z3.is_implies(e):
        e = e.arg(1)
    return _is_forall(e)


class Peeled:
    __slots__ = ('consts', 'guards', 'body')

    def __init__(self, consts, guards, body):
        self.consts = consts
        self.guards = guards
        self.body = body


_counter = itertools.count()


def peel(e, prefix='sk'):
    """forall x. (g1 => forall y. (g2 => body))  ->  consts [x, y], guards [g1, g2], body   (closed terms over fresh
    constants standing for the bound variables)"""
    consts, guards = [], []
    while True:
        if _is_forall(e):
            cs = [z3.Const("%s!%d" % (prefix, next(_counter)), e.var_sort(i)) for i in range(e.num_vars())]
            e = z3.substitute_vars(e.body(), *reversed(cs))
            consts.extend(cs)
            continue
        if z3.is_implies(e) and (_is_forall(e.arg(1)) or (z3.is_implies(e.arg(1)) and consts)):
            guards.append(e.arg(0))
            e = e.arg(1)
            continue
        if z3.is_implies(e) and consts:
            guards.append(e.arg(0))
            e = e.arg(1)
            continue
        break
    return Peeled(consts, guards, e)


def conjuncts(e):
    if z3.is_and(e):
        out = []
        for c in e.children():
            out.extend(conjuncts(c))
        return out
    return [e]


def ground_terms(es, limit=400):
    """ground subterms by sort name, restricted to 'interesting' positions: arguments of uninterpreted functions, indices
    of seq.nth / select, and integer constants"""
    by_sort = {}
    seen = set()

    def add(t):
        k = t.sort().name() if t.sort().kind() != z3.Z3_SEQ_SORT else str(t.sort())
        lst = by_sort.setdefault(str(t.sort()), [])
        if not any(t.eq(x) for x in lst):
            lst.append(t)

    def walk(x, bound_depth):
        i = x.get_id()
        if i in seen:
            return
        seen.add(i)
        if z3.is_quantifier(x):
            return      # terms under binders are not ground
        if not z3.is_app(x):
            return
        d = x.decl()
        k = d.kind()
        kids = x.children()
        if k == z3.Z3_OP_UNINTERPRETED and d.arity() > 0:
            for c in kids:
                if not z3.is_bool(c):
                    add(c)
        elif k in (z3.Z3_OP_SEQ_NTH, z3.Z3_OP_SELECT):
            add(kids[1])
            if k == z3.Z3_OP_SEQ_NTH:
                add(x)
        elif k == z3.Z3_OP_UNINTERPRETED and d.arity() == 0 and not z3.is_bool(x):
            add(x)
        for c in kids:
            walk(c, bound_depth)
    for e in es:
        walk(e, 0)
    return by_sort


def has_var(e):
    """does e contain a free de-Bruijn variable? (cheap check through the sexpr is not reliable; walk)"""
    todo = [e]
    seen = set()
    while todo:
        x = todo.pop()
        i = x.get_id()
        if i in seen:
            continue
        seen.add(i)
        if z3.is_var(x):
            return True
        if z3.is_app(x):
            todo.extend(x.children())
        elif z3.is_quantifier(x):
            todo.append(x.body())
    return False


def instantiate(hyps, goal, max_terms=10, max_instances=4000, rounds=3, focused=False, extra_terms=()):
    """returns (ground_hyps, core_goal, n_instances, leftover): hyps with every top-level universal replaced by its
    instances over the candidate terms; goal skolemised.  Several rounds: terms exposed by the instances of one round are
    candidates in the next (needed for chains of contract axioms)."""
    # hypotheses of an implication goal are hypotheses
    hyps = list(hyps)
    while z3.is_implies(goal) and not _is_forall(goal.arg(1)):
        hyps.append(goal.arg(0))
        goal = goal.arg(1)
    g = peel(goal, 'sk')
    goal_side = list(g.guards) + [g.body]
    flat = []
    for h in hyps:
        flat.extend(conjuncts(h))
    ground = [h for h in flat if not _contains_quantifier(h)]
    quant = [peel(h, 'ph') for h in flat if _is_universal(h)]
    mixed = [h for h in flat if not _is_universal(h) and _contains_quantifier(h)]
    cand = ground_terms(goal_side)
    for c in g.consts:
        lst = cand.setdefault(str(c.sort()), [])
        if not any(c.eq(x) for x in lst):
            lst.insert(0, c)

    def extend(cands, exprs, cap):
        extra = ground_terms(exprs)
        grew = False
        for k, lst in extra.items():
            base = cands.setdefault(k, [])
            for t in lst:
                if len(base) >= cap:
                    break
                if not any(t.eq(x) for x in base):
                    base.append(t)
                    grew = True
        return grew

    for t in extra_terms:
        lst = cand.setdefault(str(t.sort()), [])
        if not any(t.eq(x) for x in lst):
            lst.append(t)
    if not focused:
        extend(cand, ground, max_terms)
    else:
        # focused: also the terms of quantifier-free hypotheses that talk about a constant of the goal
        gc = _constants(goal_side)
        related = [h for h in ground if _constants([h]) & gc]
        extend(cand, related, max_terms)
    # plain constants first (loop indices, skolems), compound terms after: pools are cut from the end
    for k in cand:
        cand[k].sort(key=lambda t: 0 if (z3.is_app(t) and t.num_args() == 0 and not z3.is_int_value(t)) else 1)
    done = set()
    instances = []
    total = 0
    for rnd in range(rounds):
        new_instances = []
        for qi, p in enumerate(quant):
            pools = []
            ok = True
            for c in p.consts:
                pool = cand.get(str(c.sort()), [])
                if not pool:
                    ok = False
                    break
                pools.append(list(pool))
            if not ok:
                continue
            n = 1
            for pl in pools:
                n *= len(pl)
            while n > 300 and any(len(pl) > 2 for pl in pools):
                j = max(range(len(pools)), key=lambda t: len(pools[t]))
                pools[j] = pools[j][:-1]
                n = 1
                for pl in pools:
                    n *= len(pl)
            body = z3.Implies(z3.And(*p.guards), p.body) if p.guards else p.body
            for combo in itertools.product(*pools):
                key = (qi,) + tuple(t.get_id() for t in combo)
                if key in done:
                    continue
                done.add(key)
                new_instances.append(z3.substitute(body, *zip(p.consts, combo)))
                total += 1
                if total >= max_instances:
                    break
            if total >= max_instances:
                break
        if not new_instances:
            break
        instances.extend(new_instances)
        # instances that are themselves universals (or conjunctions containing them) feed the next round
        fresh_q = []
        for inst in new_instances:
            for cj in conjuncts(inst):
                if _is_universal(cj):
                    fresh_q.append(peel(cj, 'ph'))
        quant.extend(fresh_q)
        grew = extend(cand, [i for i in new_instances if not _contains_quantifier(i)],
                      (max_terms + 4 * (rnd + 1)) if not focused else max(len(x) for x in cand.values()) + 3)
        if not grew and not fresh_q:
            break
        if total >= max_instances:
            break
    ground2 = ground + [i for i in instances if not _contains_quantifier(i)]
    leftover = [i for i in instances if _contains_quantifier(i)] + mixed
    return ground2 + list(g.guards), g.body, total, leftover


def _constants(es):
    """names of the uninterpreted constants occurring in the expressions"""
    out = set()
    seen = set()
    todo = list(es)
    while todo:
        x = todo.pop()
        i = x.get_id()
        if i in seen:
            continue
        seen.add(i)
        if z3.is_quantifier(x):
            todo.append(x.body())
        elif z3.is_app(x):
            if x.num_args() == 0 and x.decl().kind() == z3.Z3_OP_UNINTERPRETED:
                out.add(x.decl().name())
            todo.extend(x.children())
    return out


_cq_cache = {}


def _contains_quantifier(e):
    k = e.get_id()
    c = _cq_cache.get(k)
    if c is not None and c[1].eq(e):
        return c[0]
    todo = [e]
    seen = set()
    found = False
    while todo and not found:
        x = todo.pop()
        i = x.get_id()
        if i in seen:
            continue
        seen.add(i)
        if z3.is_quantifier(x):
            found = True
        elif z3.is_app(x):
            todo.extend(x.children())
    _cq_cache[k] = (found, e)
    return found
