"""Sidecar contract language (DESIGN.md section 3).

Contracts are keyed by the qualified name of the real function and by loop ordinal (source order within the function).
All clauses are Python *text*; the executor parses and evaluates them with its own evaluator in specification mode.
"""
from __future__ import annotations
from .types import T, Outside


class LoopSpec:
    def __init__(self, ordinal):
        self.ordinal = ordinal
        self.invariants = []
        self.decreases = None
        self.index_name = 'i'
        self.modifies = []

    def invariant(self, *texts):
        self.invariants.extend(texts)
        return self

    def index(self, name):
        self.index_name = name
        return self

    def measure(self, text):
        self.decreases = text
        return self


class Contract:
    def __init__(self, qualname, props=()):
        self.qualname = qualname
        self.props = list(props)
        self.param_types = {}
        self.local_types = {}
        self.returns_type = None
        self.requires_ = []
        self.ensures_ = []          # on normal return
        self.raises_only_if_ = []   # on every raising path
        self.on_raise_ = []         # state clauses that must hold on every raising path (frame on failure)
        self.on_any_ = []           # clauses for every outcome
        self.raises_allowed = None  # None: any exception class counts as an exceptional outcome; else tuple of classes
        self.raise_cases = None     # for callers: list of (exception class, when-text or None); None -> from allowed
        self.never_raises = False
        self.loops = {}
        self.modifies_ = None       # None: pure w.r.t. heap; list of access-path texts otherwise
        self.uf_name = None         # callers (and specs) see the result as uf(args) [+ ensures]
        self.uf_args = None
        self.lets = []              # (name, text)
        self.covers = []
        self.state_shapes = {}      # param name -> StateShape
        self.ghost_updates = []
        self.inline_in_callers = False
        self.notes = []
        self.assumes = []           # named assumptions used by this contract (A-*)
        self.trusted = False        # contract is assumed, the body is NOT verified (external / out of reach)
        self.trusted_reason = ''
        self.recursive_ok = True
        self.normal_cases = None
        self.verify_body = True
        self.effect_fn = None       # callers apply this deterministic state update instead of havoc + ensures
        self.spec_facts = False     # assume the ensures also when the call occurs inside a specification
        self.predicate_ = None      # (ghost predicate name, [param names]): "this call returns normally"
        self.measure_ = None        # termination measure of a recursive function (text over the parameters, an int >= 0)
        self.before_call_ = {}      # callee short name -> [texts]: intermediate assertions (proved, then used) at its call sites

    # fluent API ---------------------------------------------------------------------------------------------
    def params(self_, **kw):
        self_.param_types.update(kw)
        return self_

    def local(self, **kw):
        self.local_types.update(kw)
        return self

    def returns(self, ty):
        self.returns_type = ty
        return self

    def let(self, **kw):
        for k, v in kw.items():
            self.lets.append((k, v))
        return self

    def requires(self, *texts):
        self.requires_.extend(texts)
        return self

    def ensures(self, *texts):
        self.ensures_.extend(texts)
        return self

    def raises_only_if(self, *texts):
        self.raises_only_if_.extend(texts)
        return self

    def on_raise(self, *texts):
        self.on_raise_.extend(texts)
        return self

    def always(self, *texts):
        self.on_any_.extend(texts)
        return self

    def raises(self, *classes, cases=None):
        self.raises_allowed = tuple(classes)
        if cases is not None:
            self.raise_cases = cases
        return self

    def no_raise(self):
        self.never_raises = True
        self.raises_allowed = ()
        return self

    def before_call(self, callee, *texts):
        """intermediate assertions at every call of `callee` (short name) in this function: each is an obligation of its
        own at that point and is then available to what follows (splits a long derivation into two short ones)"""
        self.before_call_.setdefault(callee, []).extend(texts)
        return self

    def measure(self, text):
        """recursive calls (used through this very contract) must decrease this non-negative integer"""
        self.measure_ = text
        return self

    def loop(self, ordinal):
        if ordinal not in self.loops:
            self.loops[ordinal] = LoopSpec(ordinal)
        return self.loops[ordinal]

    def modifies(self, *paths):
        self.modifies_ = list(paths)
        return self

    def summary(self, uf_name, args=None):
        self.uf_name = uf_name
        self.uf_args = args
        return self

    def cover(self, *texts):
        self.covers.extend(texts)
        return self

    def state(self, param, shape):
        self.state_shapes[param] = shape
        return self

    def assume(self, *names):
        self.assumes.extend(names)
        return self

    def predicate(self, name, args):
        """names the ghost predicate 'this function returns normally on these arguments' (definitional: assumed at
        call sites on the normal / negated on the raising outcome; the function must be deterministic)"""
        self.predicate_ = (name, list(args))
        return self

    def effect(self, fn):
        """fn(engine, state, argument values): the call's effect on the caller's state, stated operationally (used for
        stream appends, where the post-state is a function of the pre-state); must agree with `ensures` - the function's
        own verification checks the ensures, callers use the effect"""
        self.effect_fn = fn
        return self

    def trust(self, reason):
        self.trusted = True
        self.verify_body = False
        self.trusted_reason = reason
        return self


class ContractSet:
    def __init__(self):
        self.contracts = {}
        self.ghosts = {}
        self.externals = {}
        self.lemmas = []

    def contract(self, qualname, props=()):
        def deco(fn):
            c = Contract(qualname, props)
            fn(c)
            if qualname in self.contracts:
                raise ValueError("duplicate contract for %s" % qualname)
            self.contracts[qualname] = c
            return c
        return deco

    def ghost(self, name):
        def deco(fn):
            self.ghosts[name] = fn
            return fn
        return deco

    def external(self, key):
        def deco(fn):
            self.externals[key] = fn
            return fn
        return deco

    def lemma(self, name, props=()):
        """a spec-level lemma: fn(engine) -> list of (hyps, goal) or builds obligations itself"""
        def deco(fn):
            self.lemmas.append((name, list(props), fn))
            return fn
        return deco

    def update(self, other):
        for k, v in other.contracts.items():
            if k in self.contracts:
                raise ValueError("duplicate contract for %s" % k)
            self.contracts[k] = v
        self.ghosts.update(other.ghosts)
        self.externals.update(other.externals)
        self.lemmas.extend(other.lemmas)
