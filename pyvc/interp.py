"""Expression and statement interpretation over symbolic values (part of pyvc; see engine.py)."""
from __future__ import annotations
import ast
import builtins
import struct as _struct

import z3

from .types import (T, INT, BOOL, BYTES, STR, NONE, ANY, OPT, LIST, SET, MAP, TUPLE, CLS, Outside, to_sort, opt_sort,
                    tuple_sort, from_annotation, BYTES_SORT, BV8)
from .engine import (EmptyMap, EMPTY_MAP, RangeV, IterV, Engine, V, Ref, HeapObj, ExcVal, Raised, Closure, BoundMethod, BuiltinMethod, LocalClass, GhostNS,
                     Frame, State, is_concrete, bytes_term)


class Ctl:
    """statement outcome"""
    __slots__ = ('kind', 'val')

    def __init__(self, kind, val=None):
        self.kind = kind     # 'return' | 'raise' | 'break' | 'continue'
        self.val = val


NORMAL = None


class SpecQuant:
    pass


def _is_true(t):
    return isinstance(t, bool) and t or (isinstance(t, z3.ExprRef) and z3.is_true(t))


def _is_false(t):
    return (isinstance(t, bool) and not t) or (isinstance(t, z3.ExprRef) and z3.is_false(t))


class Interp(Engine):

    # ================================================================================================ truthiness / eq

    def truth(self, v, st):
        """z3 Bool (or python bool) for the truth value of v"""
        if isinstance(v, Ref):
            h = st.heap[v.loc]
            if h.kind in ('list', 'set', 'dict'):
                return self.truth(h.val, st)
            return True
        if isinstance(v, V):
            k = v.ty.kind
            if k == 'bool':
                return v.t
            if k == 'int':
                return v.t != 0
            if k in ('bytes', 'list', 'str'):
                return z3.Length(v.t) > 0
            if k == 'opt':
                o = opt_sort(to_sort(v.ty.args[0], self.reg))
                inner = V(o.val(v.t), v.ty.args[0])
                it = self.truth(inner, st)
                if _is_true(it):
                    return o.is_some(v.t)
                return z3.And(o.is_some(v.t), it)
            if k in ('cls', 'tuple'):
                return True
            if k in ('map', 'set'):
                raise Outside("truth value of a symbolic map/set")
            raise Outside("truth of %r" % (v,))
        if isinstance(v, (Closure, BoundMethod, BuiltinMethod, LocalClass)):
            return True
        try:
            return bool(v)
        except Exception:
            raise Outside("truth of %r" % (v,))

    def b(self, c):
        return z3.BoolVal(c) if isinstance(c, bool) else c

    def py_eq(self, a, b, st):
        """z3 Bool for python `a == b` (class instances: their __eq__ is interpreted)"""
        if isinstance(a, Ref) and isinstance(b, Ref):
            ha, hb = st.heap[a.loc], st.heap[b.loc]
            if ha.kind == 'obj' or hb.kind == 'obj':
                return a.loc == b.loc
        if isinstance(a, Ref):
            a = self.lift(a, st)
        if isinstance(b, Ref):
            b = self.lift(b, st)
        if not isinstance(a, V) and not isinstance(b, V):
            if isinstance(a, tuple) and isinstance(b, tuple):
                if len(a) != len(b):
                    return False
                cs = [self.py_eq(x, y, st) for x, y in zip(a, b)]
                return self._and(cs)
            if isinstance(a, list) and isinstance(b, list) and not a and not b:
                return True
            try:
                return a == b
            except Exception:
                raise Outside("== on %r, %r" % (a, b))
        if isinstance(a, tuple) and isinstance(b, V) and b.ty.kind == 'opt':
            a, b = b, a
        if isinstance(b, tuple) and isinstance(a, V) and a.ty.kind == 'opt':
            # Optional[Tuple[...]] against a tuple: present and equal component-wise
            o = opt_sort(to_sort(a.ty.args[0], self.reg))
            return self._and([o.is_some(a.t), self.py_eq(V(o.val(a.t), a.ty.args[0]), b, st)])
        if isinstance(a, tuple) or isinstance(b, tuple):
            ta = a if isinstance(a, tuple) else self.untuple(a)
            tb = b if isinstance(b, tuple) else self.untuple(b)
            if len(ta) != len(tb):
                return False
            return self._and([self.py_eq(x, y, st) for x, y in zip(ta, tb)])
        if isinstance(a, list) and not a and isinstance(b, V) and b.ty.kind == 'list':
            return z3.Length(b.t) == 0
        if isinstance(b, list) and not b and isinstance(a, V) and a.ty.kind == 'list':
            return z3.Length(a.t) == 0
        if isinstance(a, list) or isinstance(b, list):
            raise Outside("== with a literal list")
        ta, tb = self.ty_of(a), self.ty_of(b)
        # None comparisons
        if ta.kind == 'none' or tb.kind == 'none':
            other, oty = (b, tb) if ta.kind == 'none' else (a, ta)
            if oty.kind == 'none':
                return True
            if oty.kind == 'opt':
                return opt_sort(to_sort(oty.args[0], self.reg)).is_none(other.t)
            return False
        if ta.kind == 'opt' and tb.kind != 'opt':
            o = opt_sort(to_sort(ta.args[0], self.reg))
            return z3.And(o.is_some(a.t), self.b(self.py_eq(V(o.val(a.t), ta.args[0]), b, st)))
        if tb.kind == 'opt' and ta.kind != 'opt':
            return self.py_eq(b, a, st)
        if ta.kind == 'opt' and tb.kind == 'opt':
            o = opt_sort(to_sort(ta.args[0], self.reg))
            inner = self.py_eq(V(o.val(a.t), ta.args[0]), V(o.val(b.t), tb.args[0]), st)
            return z3.Or(z3.And(o.is_none(a.t), o.is_none(b.t)),
                         z3.And(o.is_some(a.t), o.is_some(b.t), self.b(inner)))
        if ta.kind in ('int', 'bool') and tb.kind in ('int', 'bool'):
            return self.term(a, INT) == self.term(b, INT) if ta != tb else self.term(a) == self.term(b)
        if ta.kind != tb.kind:
            if ta.kind == 'any' or tb.kind == 'any':
                raise Outside("== on untyped values")
            return False
        if ta.kind in ('bytes', 'str'):
            return self.term(a) == self.term(b)
        if ta.kind == 'cls':
            return self.class_eq(a, b, st)
        if ta.kind == 'list':
            ety = ta.args[0]
            if self.structural_eq(ety):
                return self.term(a) == self.term(b)
            j = self.fresh_term('k', z3.IntSort())
            ea, eb = V(self.term(a)[j], ety), V(self.term(b)[j], tb.args[0])
            return z3.And(z3.Length(a.t) == z3.Length(b.t),
                          z3.ForAll([j], z3.Implies(z3.And(0 <= j, j < z3.Length(a.t)), self.b(self.py_eq(ea, eb, st)))))
        if ta.kind == 'tuple':
            return self._and([self.py_eq(x, y, st) for x, y in zip(self.untuple(a), self.untuple(b))])
        if ta.kind in ('map', 'set'):
            return self.term(a) == self.term(b)
        raise Outside("== on %r" % (ta,))

    def structural_eq(self, ty):
        """True when python == on this type coincides with term equality"""
        k = ty.kind
        if k in ('int', 'bool', 'bytes', 'str', 'none'):
            return True
        if k in ('opt', 'list'):
            return self.structural_eq(ty.args[0])
        if k == 'tuple':
            return all(self.structural_eq(a) for a in ty.args)
        if k == 'cls':
            return ty.args[0] in getattr(self, 'structural_classes', ())
        return False

    def class_eq(self, a, b, st):
        """interpret the class's own __eq__ on two datatype values (single pure outcome expected per case)"""
        if a.ty.kind != 'cls' or b.ty.kind != 'cls':
            return False
        ra = self.reg.root_of(a.ty.args[0])
        rb = self.reg.root_of(b.ty.args[0])
        if ra != rb:
            return False
        if ra in getattr(self, 'opaque_eq_classes', ()):
            # python == of these classes as a named function with its definition (from __eq__'s source) as a global
            # axiom: keeps obligations small; the definition is instantiated where it is needed
            f = self.uf('pyeq_' + ra, a.t.sort(), b.t.sort(), z3.BoolSort())
            if ra not in self._pyeq_defined:
                self._pyeq_defined.add(ra)
                x = z3.Const('pyeq!x_' + ra, a.t.sort())
                y = z3.Const('pyeq!y_' + ra, b.t.sort())
                sub0 = State()
                sub0.stack = [Frame({}, None, {}, 'pyeq')]
                sub0.spec = True
                body = self._class_eq_body(V(x, CLS(ra)), V(y, CLS(ra)), sub0, ra)
                self.axioms.append(z3.ForAll([x, y], f(x, y) == self.b(body), patterns=[f(x, y)]))
            return f(a.t, b.t)
        return self._class_eq_body(a, b, st, ra)

    def _class_eq_body(self, a, b, st, ra):
        cases = []
        for ci in self.reg.concrete(ra):
            eqf = getattr(ci.pyclass, '__eq__', None)
            if eqf is None or eqf is object.__eq__:
                if st.spec:
                    return a.t == b.t       # specification equality of value objects: same abstract value
                raise Outside("class %s has no __eq__ (identity comparison of value objects)" % ci.name)
            # execute __eq__(a, b) under the assumption that a is of this concrete class
            sub = st.fork()
            sub.pc = []
            sub.spec = True
            av = V(a.t, CLS(ci.name))
            outs = list(self.call_function(eqf, [av, b], {}, sub, inline=True))
            val = None
            for s2, r in outs:
                if isinstance(r, Raised):
                    cond_val = None     # NotImplementedError branch: treated as "not equal" is wrong; require unreachable
                    continue
                c = self._and(s2.pc)
                tv = self.b(self.truth(r, s2))
                val = tv if val is None else z3.If(c, tv, val)
            if val is None:
                raise Outside("__eq__ of %s has no normal outcome" % ci.name)
            cases.append((ci.recog(a.t), val))
        res = cases[-1][1]
        for rec, val in reversed(cases[:-1]):
            res = z3.If(rec, val, res)
        return res

    def _and(self, cs):
        cs = [c for c in cs if not _is_true(c)]
        if any(_is_false(c) for c in cs):
            return False
        if not cs:
            return True
        return z3.And(*[self.b(c) for c in cs]) if len(cs) > 1 else cs[0]

    def _or(self, cs):
        cs = [c for c in cs if not _is_false(c)]
        if any(_is_true(c) for c in cs):
            return True
        if not cs:
            return False
        return z3.Or(*[self.b(c) for c in cs]) if len(cs) > 1 else cs[0]

    def _not(self, c):
        if isinstance(c, bool):
            return not c
        return z3.Not(c)

    def untuple(self, v):
        if isinstance(v, tuple):
            return v
        if isinstance(v, V) and v.ty.kind == 'tuple':
            ts = tuple_sort([to_sort(a, self.reg) for a in v.ty.args])
            return tuple(V(ts.proj[i](v.t), a) for i, a in enumerate(v.ty.args))
        raise Outside("not a tuple: %r" % (v,))

    # ================================================================================================ branching

    def branch(self, st, cond, label=''):
        """yield (state, bool) for the feasible sides of cond"""
        if isinstance(cond, bool):
            yield st, cond
            return
        simp = z3.simplify(cond)      # only to recognise literals: the stored condition keeps its readable form
        if z3.is_true(simp):
            yield st, True
            return
        if z3.is_false(simp):
            yield st, False
            return
        if st.spec:
            raise Outside("branching inside a specification expression")
        s1 = st.fork().assume(cond, decision=True)
        s1.trace.append(label + ":T")
        if self.feasible(s1):
            yield s1, True
        s2 = st.assume(z3.Not(cond), decision=True)
        s2.trace.append(label + ":F")
        if self.feasible(s2):
            yield s2, False

    # ================================================================================================ names

    def lookup(self, name, st):
        f = st.frame
        hops = 0
        while f is not None:
            if name in f.vars:
                return f.vars[name]
            if f.captured is not None and name in f.captured:
                return f.captured[name]
            nxt = st.stack[f.parent] if f.parent is not None and f.parent < len(st.stack) else None
            f = nxt if nxt is not f else None
            hops += 1
            if hops > 64:
                raise Outside("scope chain too deep")
        if name == 'GS' and self.ghost_ref is not None:
            return self.ghost_ref
        g = st.frame.globs
        if name in g:
            r = g[name]
            return self.singleton_refs.get(id(r), r) if self.singleton_refs else r
        if st.spec and name in self.spec_globals:
            return self.spec_globals[name]
        if hasattr(builtins, name):
            return getattr(builtins, name)
        raise Outside("unbound name %s" % name)

    # ================================================================================================ expressions

    def ev(self, e, st):
        """generator of (state, value | Raised)"""
        m = getattr(self, 'ev_' + type(e).__name__, None)
        if m is None:
            raise Outside("expression %s at line %s" % (type(e).__name__, getattr(e, 'lineno', '?')))
        return m(e, st)

    def capture(self, st):
        """snapshot of the variables visible from the current activation (for closures / local classes)"""
        cap = {}
        f = st.frame
        chain = []
        hops = 0
        while f is not None and hops < 64:
            chain.append(f)
            nxt = st.stack[f.parent] if f.parent is not None and f.parent < len(st.stack) else None
            f = nxt if nxt is not f else None
            hops += 1
        for f in reversed(chain):
            if f.captured:
                cap.update(f.captured)
            cap.update(f.vars)
        return cap

    def ev_list(self, es, st):
        """evaluate expressions left to right; yields (state, [values]) or (state, Raised)"""
        if not es:
            yield st, []
            return
        for s1, v1 in self.ev(es[0], st):
            if isinstance(v1, Raised):
                yield s1, v1
                continue
            for s2, rest in self.ev_list(es[1:], s1):
                if isinstance(rest, Raised):
                    yield s2, rest
                else:
                    yield s2, [v1] + rest

    def ev_Constant(self, e, st):
        yield st, e.value

    def ev_Name(self, e, st):
        if st.spec and e.id == 'G':
            yield st, GhostNS(self.ghosts)
            return
        yield st, self.lookup(e.id, st)

    def ev_JoinedStr(self, e, st):
        yield st, V(self.fresh_term('fstr', z3.StringSort()), STR)

    def ev_Tuple(self, e, st):
        for s, vs in self.ev_list(e.elts, st):
            yield s, (vs if isinstance(vs, Raised) else tuple(vs))

    def ev_List(self, e, st):
        for s, vs in self.ev_list(e.elts, st):
            if isinstance(vs, Raised):
                yield s, vs
            elif st.spec:
                yield s, list(vs)
            else:
                yield s, self.new_list(s, vs)

    def ev_Set(self, e, st):
        raise Outside("set display")

    def ev_Dict(self, e, st):
        if e.keys:
            # used by Wallet.dump / json: keep concrete structure of values
            for s, ks in self.ev_list(e.keys, st):
                if isinstance(ks, Raised):
                    yield s, ks
                    continue
                for s2, vs in self.ev_list(e.values, s):
                    if isinstance(vs, Raised):
                        yield s2, vs
                    else:
                        yield s2, ('pydict', tuple(zip(ks, vs)))
            return
        yield st, self.new_container(st, 'dict', None)

    def new_list(self, st, vs, ety=None):
        if ety is None and vs:
            ety = self.ty_of(vs[0]) if not isinstance(vs[0], Ref) else None
        val = None
        if ety is not None:
            es = to_sort(ety, self.reg)
            if vs:
                units = [z3.Unit(self.term(x, ety, st)) for x in vs]
                t = units[0] if len(units) == 1 else z3.Concat(*units)
            else:
                t = z3.Empty(z3.SeqSort(es))
            val = V(t, LIST(ety))
        elif vs:
            raise Outside("list of mutable objects")
        return self.new_container(st, 'list', val)

    def new_container(self, st, kind, val):
        loc = next(self.loc_counter)
        st.heap[loc] = HeapObj(kind, val=val)
        st.writes += 1
        return Ref(loc)

    def ev_UnaryOp(self, e, st):
        for s, v in self.ev(e.operand, st):
            if isinstance(v, Raised):
                yield s, v
                continue
            if isinstance(e.op, ast.Not):
                t = self.truth(v, s)
                yield s, (not t if isinstance(t, bool) else V(z3.Not(t), BOOL))
            elif isinstance(e.op, ast.USub):
                yield s, (-v if is_concrete(v) else V(-self.term(v, INT), INT))
            elif isinstance(e.op, ast.UAdd):
                yield s, v
            else:
                raise Outside("unary op %s" % type(e.op).__name__)

    def ev_BoolOp(self, e, st):
        is_and = isinstance(e.op, ast.And)
        yield from self._boolop(e.values, is_and, st, e)

    def _boolop(self, values, is_and, st, e):
        if len(values) == 1:
            yield from self.ev(values[0], st)
            return
        for s, v in self.ev(values[0], st):
            if isinstance(v, Raised):
                yield s, v
                continue
            t = self.truth(v, s)
            if isinstance(t, bool):
                if t == is_and:
                    yield from self._boolop(values[1:], is_and, s, e)
                else:
                    yield s, v
                continue
            # symbolic: try to merge a pure, single-outcome right-hand side into one term
            if s.spec:
                outs = list(self._boolop(values[1:], is_and, s, e))
                if len(outs) != 1 or isinstance(outs[0][1], Raised):
                    raise Outside("impure specification operand")
                rt = self.b(self.truth(outs[0][1], outs[0][0]))
                yield s, V(z3.And(t, rt) if is_and else z3.Or(t, rt), BOOL)
                continue
            probe = s.fork().assume(t if is_and else z3.Not(t))
            w0 = probe.writes
            outs = list(self._boolop(values[1:], is_and, probe, e))
            if (len(outs) == 1 and not isinstance(outs[0][1], Raised) and outs[0][0].writes == w0
                    and len(outs[0][0].pc) == len(probe.pc) and self._boolish(v) and self._boolish(outs[0][1])):
                rt = self.b(self.truth(outs[0][1], outs[0][0]))
                yield s, V(z3.And(t, rt) if is_and else z3.Or(t, rt), BOOL)
                continue
            # general case: fork
            for s2, side in self.branch(s, t, "L%s" % getattr(e, 'lineno', '?')):
                if side == is_and:
                    yield from self._boolop(values[1:], is_and, s2, e)
                else:
                    yield s2, v

    def _boolish(self, v):
        return isinstance(v, bool) or (isinstance(v, V) and v.ty.kind == 'bool')

    def ev_IfExp(self, e, st):
        for s, c in self.ev(e.test, st):
            if isinstance(c, Raised):
                yield s, c
                continue
            t = self.truth(c, s)
            if s.spec and not isinstance(t, bool):
                # decided by the path condition?  then the specification term needs no if-then-else
                if self.entails(s, t):
                    yield from self.ev(e.body, s)
                    continue
                if self.entails(s, z3.Not(t)):
                    yield from self.ev(e.orelse, s)
                    continue
                (s1, a), = list(self.ev(e.body, s))
                (s2, b2), = list(self.ev(e.orelse, s))
                la, lb = self.lift(a, s), self.lift(b2, s)
                ty = la.ty if la.ty == lb.ty else (OPT(la.ty) if lb.ty.kind in ('none', 'opt') else OPT(lb.ty))
                yield s, V(z3.If(t, self.term(la, ty, s), self.term(lb, ty, s)), ty)
                continue
            for s2, side in self.branch(s, t, "L%s" % e.lineno):
                yield from self.ev(e.body if side else e.orelse, s2)

    def ev_Compare(self, e, st):
        comps = [ast.Tuple(elts=c.elts, ctx=ast.Load()) if isinstance(c, ast.List) and isinstance(o, (ast.In, ast.NotIn))
                 else c for c, o in zip(e.comparators, e.ops)]
        for s, vs in self.ev_list([e.left] + comps, st):
            if isinstance(vs, Raised):
                yield s, vs
                continue
            conds = []
            for op, a, b2 in zip(e.ops, vs, vs[1:]):
                conds.append(self.compare(op, a, b2, s))
            c = self._and(conds)
            yield s, (c if isinstance(c, bool) else V(c, BOOL))

    def compare(self, op, a, b2, st):
        if isinstance(op, ast.Eq):
            return self.py_eq(a, b2, st)
        if isinstance(op, ast.NotEq):
            return self._not(self.py_eq(a, b2, st))
        if isinstance(op, (ast.Is, ast.IsNot)):
            if b2 is None or a is None:
                r = self.py_eq(a, b2, st)
            elif isinstance(a, Ref) and isinstance(b2, Ref):
                r = a.loc == b2.loc
            elif isinstance(a, (V, Ref)) or isinstance(b2, (V, Ref)):
                r = self.identity(a, b2, st)
            else:
                r = a is b2
            return r if isinstance(op, ast.Is) else self._not(r)
        if isinstance(op, (ast.In, ast.NotIn)):
            r = self.contains(b2, a, st)
            return r if isinstance(op, ast.In) else self._not(r)
        if isinstance(op, (ast.Lt, ast.LtE, ast.Gt, ast.GtE)):
            if is_concrete(a) and is_concrete(b2):
                return {ast.Lt: a < b2, ast.LtE: a <= b2, ast.Gt: a > b2, ast.GtE: a >= b2}[type(op)]
            a, b2 = self.unwrap_known_some(a, st), self.unwrap_known_some(b2, st)
            ta, tb = self.ty_of(self.lift(a, st)), self.ty_of(self.lift(b2, st))
            if ta.kind in ('int', 'bool') and tb.kind in ('int', 'bool'):
                x, y = self.term(a, INT), self.term(b2, INT)
                return {ast.Lt: x < y, ast.LtE: x <= y, ast.Gt: x > y, ast.GtE: x >= y}[type(op)]
            if ta.kind == 'bytes' and tb.kind == 'bytes':
                x, y = self.term(a), self.term(b2)
                lt = self.bytes_lt
                return {ast.Lt: lambda: lt(x, y), ast.LtE: lambda: z3.Not(lt(y, x)),
                        ast.Gt: lambda: lt(y, x), ast.GtE: lambda: z3.Not(lt(x, y))}[type(op)]()
            raise Outside("ordering on %r, %r" % (ta, tb))
        raise Outside("comparison %s" % type(op).__name__)

    def unwrap_known_some(self, v, st):
        """an Optional value used where its content is needed: the content, if it is known not to be None here (always in a
        specification, where the content of None is unspecified)"""
        if isinstance(v, V) and v.ty.kind == 'opt':
            o = opt_sort(to_sort(v.ty.args[0], self.reg))
            if st.spec or self.entails(st, o.is_some(v.t)):
                return V(o.val(v.t), v.ty.args[0])
            raise Outside("possibly-None value used as %r" % (v.ty.args[0],))
        return v

    def identity(self, a, b2, st):
        # `is` between immutable values: only used with sentinel strings / None in this code base
        if isinstance(a, V) and a.ty.kind == 'str' or isinstance(b2, V) and b2.ty.kind == 'str':
            return self.py_eq(a, b2, st)
        raise Outside("`is` on symbolic values")

    def bytes_lt(self, x, y):
        """python bytes `<`: lexicographic.  A-LEX: for equal lengths it is big-endian numeric order."""
        f = self.uf('bytes_lt', BYTES_SORT, BYTES_SORT, z3.BoolSort())
        be = self.uf('be', BYTES_SORT, z3.IntSort())
        ax = z3.Implies(z3.Length(x) == z3.Length(y), f(x, y) == (be(x) < be(y)))
        self.add_func_axiom(ax)
        self.assumptions_used.add('A-LEX')
        return f(x, y)

    def add_func_axiom(self, ax):
        k = ax.sexpr() if hasattr(ax, 'sexpr') else str(ax)
        if k not in self._ax_seen:
            self._ax_seen.add(k)
            self.func_axioms.append(ax)

    def contains(self, container, x, st):
        if isinstance(container, Ref):
            h = st.heap[container.loc]
            if h.kind in ('list', 'set', 'dict'):
                if h.val is None:
                    return False
                container = h.val
            else:
                fld = self.delegating_dunder(h, '__contains__', ast.In)
                if fld is None:
                    raise Outside("`in` on object")
                return self.contains(h.fields[fld], x, st)
        if isinstance(container, EmptyMap):
            return False
        if isinstance(container, RangeV):
            if not (is_concrete(container.step) and container.step == 1):
                raise Outside("`in` on a stepped range")
            xt = self.term(x, INT)
            return z3.And(self.term(container.lo, INT) <= xt, xt < self.term(container.hi, INT))
        if isinstance(container, IterV):
            if container.kind == 'keys':
                return self.contains(container.base, x, st)
            raise Outside("`in` on a %s view" % container.kind)
        if isinstance(container, (list, tuple)):
            return self._or([self.py_eq(x, c, st) for c in container])
        if isinstance(container, dict):
            return self._or([self.py_eq(x, c, st) for c in container.keys()])
        if isinstance(container, (str, bytes)) and is_concrete(x):
            return x in container
        if isinstance(container, V) and container.ty.kind in ('map', 'set') and isinstance(x, V) and x.ty.kind == 'opt' \
                and container.ty.args[0].kind != 'opt':
            ok = opt_sort(to_sort(x.ty.args[0], self.reg))
            return z3.And(ok.is_some(x.t), self.b(self.contains(container, V(ok.val(x.t), x.ty.args[0]), st)))
        if isinstance(container, V):
            k = container.ty.kind
            if k == 'map':
                kt = self.key_term(x, container.ty.args[0], st)
                return opt_sort(to_sort(container.ty.args[1], self.reg)).is_some(z3.Select(container.t, kt))
            if k == 'set':
                return z3.Select(container.t, self.key_term(x, container.ty.args[0], st))
            if k == 'list':
                ety = container.ty.args[0]
                if self.structural_eq(ety):
                    return z3.Contains(container.t, z3.Unit(self.term(x, ety, st)))
                j = self.fresh_term('k', z3.IntSort())
                return z3.Exists([j], z3.And(0 <= j, j < z3.Length(container.t),
                                             self.b(self.py_eq(V(container.t[j], ety), x, st))))
            if k == 'bytes' or k == 'str':
                return z3.Contains(container.t, self.term(x))
        raise Outside("`in` on %r" % (container,))

    def delegating_dunder(self, h, name, op):
        """`x in obj` / `obj[k]` on an object whose class defines the operator as a one-line delegation to one of its own
        fields (`return x in self.f` / `return self.f[k]`, read from the real source): the name of that field"""
        cls = h.cls
        fn = None
        for k in getattr(cls, '__mro__', ()):
            if name in k.__dict__:
                fn = k.__dict__[name]
                break
        if fn is None or h.fields is None:
            return None
        try:
            node, _src = self.func_ast(fn)
        except Exception:
            return None
        body = [b for b in node.body if not (isinstance(b, ast.Expr) and isinstance(b.value, ast.Constant))]
        if len(body) != 1 or not isinstance(body[0], ast.Return):
            return None
        params = [a.arg for a in node.args.args]
        r = body[0].value
        if name == '__contains__' and isinstance(r, ast.Compare) and len(r.ops) == 1 and isinstance(r.ops[0], ast.In) \
                and isinstance(r.left, ast.Name) and r.left.id == params[1] and isinstance(r.comparators[0], ast.Attribute) \
                and isinstance(r.comparators[0].value, ast.Name) and r.comparators[0].value.id == params[0]:
            f = r.comparators[0].attr
            return f if f in h.fields else None
        if name == '__getitem__' and isinstance(r, ast.Subscript) and isinstance(r.value, ast.Attribute) \
                and isinstance(r.value.value, ast.Name) and r.value.value.id == params[0] \
                and isinstance(r.slice, ast.Name) and r.slice.id == params[1]:
            f = r.value.attr
            return f if f in h.fields else None
        return None

    def key_term(self, x, kty, st):
        """term used to index a map/set whose declared key type is kty (value classes may be keyed by a projection)"""
        if isinstance(x, V) and x.ty.kind == 'cls' and kty.kind != 'cls':
            proj = self.key_projection.get(self.reg.root_of(x.ty.args[0]))
            if proj is not None:
                return proj(self, x, st)
        return self.term(x, kty, st)

    # ---------------------------------------------------------------------------------------------- arithmetic

    def ev_BinOp(self, e, st):
        for s, vs in self.ev_list([e.left, e.right], st):
            if isinstance(vs, Raised):
                yield s, vs
                continue
            yield from self.binop(e.op, vs[0], vs[1], s, e)

    def binop(self, op, a, b2, st, e=None):
        if isinstance(a, Ref):
            a = self.lift(a, st)
        if isinstance(b2, Ref):
            b2 = self.lift(b2, st)
        if isinstance(a, V) and a.ty.kind == 'opt' and a.ty.args[0].kind in ('int', 'bytes'):
            a = self.unwrap_known_some(a, st)
        if isinstance(b2, V) and b2.ty.kind == 'opt' and b2.ty.args[0].kind in ('int', 'bytes'):
            b2 = self.unwrap_known_some(b2, st)
        if (isinstance(a, tuple) and a and a[0] == 'opaque') or (isinstance(b2, tuple) and b2 and b2[0] == 'opaque'):
            yield st, ('opaque',)       # arithmetic on values the verification does not look at (Decimal balances)
            return
        if isinstance(op, ast.Mod) and (isinstance(a, (str, bytes)) and not isinstance(a, V)
                                        or isinstance(a, V) and a.ty.kind == 'str'):
            yield st, V(self.fresh_term('fmt', z3.StringSort()), STR)      # % formatting: opaque text (A-LOG)
            return
        if is_concrete(a) and is_concrete(b2) and not isinstance(a, str):
            try:
                yield st, self._concrete_binop(op, a, b2)
            except ZeroDivisionError:
                yield st, Raised(ExcVal(ZeroDivisionError))
            return
        if isinstance(a, str) and isinstance(b2, str) and isinstance(op, ast.Add):
            yield st, a + b2
            return
        if isinstance(a, tuple) and isinstance(b2, tuple) and isinstance(op, ast.Add):
            yield st, a + b2
            return
        ta, tb = self.ty_of(self.lift(a, st)) if not isinstance(a, (list,)) else None, \
            self.ty_of(self.lift(b2, st)) if not isinstance(b2, (list,)) else None
        if isinstance(a, list) or isinstance(b2, list):
            # spec-mode literal lists
            la = a if isinstance(a, V) else V(self.term(a, b2.ty if isinstance(b2, V) else None, st), b2.ty if isinstance(b2, V) else LIST(self.ty_of(a[0])))
            lb = b2 if isinstance(b2, V) else V(self.term(b2, la.ty, st), la.ty)
            yield st, V(z3.Concat(la.t, lb.t), la.ty)
            return
        if ta.kind in ('int', 'bool') and tb.kind in ('int', 'bool'):
            x, y = self.term(a, INT), self.term(b2, INT)
            if isinstance(op, ast.Add):
                yield st, V(x + y, INT)
            elif isinstance(op, ast.Sub):
                yield st, V(x - y, INT)
            elif isinstance(op, ast.Mult):
                yield st, V(x * y, INT)
            elif isinstance(op, (ast.FloorDiv, ast.Mod)):
                yield from self.divmod_(op, x, y, st, e)
            elif isinstance(op, ast.Pow):
                yield st, self.power(a, b2, st)
            elif isinstance(op, ast.BitAnd) and is_concrete(b2) and b2 >= 0 and (b2 + 1) & b2 == 0:
                # x & (2^k - 1) for non-negative x
                yield st, V(x % (b2 + 1), INT)
            elif isinstance(op, ast.BitAnd) and (is_concrete(b2) or is_concrete(a)):
                yield st, self.bit_and(a, b2, st)
            elif isinstance(op, ast.BitOr) and is_concrete(a) and is_concrete(b2):
                yield st, a | b2
            elif isinstance(op, (ast.RShift, ast.LShift)):
                # x >> k == x // 2**k (floor, as in Python for every sign of x), x << k == x * 2**k ; k < 0 raises
                for s2, neg in self.branch(st, y < 0, "L%s:shift-count" % getattr(e, 'lineno', '?')):
                    if neg:
                        yield s2, Raised(ExcVal(ValueError))
                        continue
                    p2 = self.power(2, b2, s2)
                    if isinstance(op, ast.LShift):
                        yield s2, V(x * self.term(p2, INT), INT)
                    else:
                        yield from self.divmod_(ast.FloorDiv(), x, self.term(p2, INT), s2, e)
            else:
                raise Outside("int operator %s" % type(op).__name__)
            return
        if ta.kind == 'bytes' and tb.kind == 'bytes' and isinstance(op, ast.Add):
            yield st, V(self.mk_concat(self.term(a), self.term(b2)), BYTES)
            return
        if ta.kind == 'str' and tb.kind == 'str' and isinstance(op, ast.Add):
            yield st, V(z3.Concat(self.term(a), self.term(b2)), STR)
            return
        if ta.kind == 'list' and tb.kind == 'list' and isinstance(op, ast.Add):
            ety = ta.args[0]
            yield st, V(z3.Concat(self.term(a, ta, st), self.term(b2, ta, st)), ta)
            return
        if ta.kind == 'bytes' and tb.kind == 'int' and isinstance(op, ast.Mult):
            # b'\0' * n with symbolic n: a fresh byte string of that length with all bytes equal
            if is_concrete(a) and len(a) == 1:
                r = self.fresh('rep', BYTES)
                j = self.fresh_term('k', z3.IntSort())
                n = self.term(b2, INT)
                st.assume(z3.Length(r.t) == z3.If(n > 0, n, 0))
                st.assume(z3.ForAll([j], z3.Implies(z3.And(0 <= j, j < z3.Length(r.t)), r.t[j] == z3.BitVecVal(a[0], 8))))
                yield st, r
                return
        raise Outside("operator %s on %r, %r (line %s)" % (type(op).__name__, ta, tb, getattr(e, 'lineno', '?')))

    @staticmethod
    def _concrete_binop(op, a, b2):
        import operator
        table = {ast.Add: operator.add, ast.Sub: operator.sub, ast.Mult: operator.mul, ast.FloorDiv: operator.floordiv,
                 ast.Mod: operator.mod, ast.Pow: operator.pow, ast.LShift: operator.lshift, ast.RShift: operator.rshift,
                 ast.BitAnd: operator.and_, ast.BitOr: operator.or_, ast.BitXor: operator.xor,
                 ast.Div: operator.truediv}
        if type(op) not in table:
            raise Outside("operator %s" % type(op).__name__)
        if isinstance(op, ast.Div):
            raise Outside("float division")
        return table[type(op)](a, b2)

    def divmod_(self, op, x, y, st, e):
        """python floor division / modulo, exact for either sign; ZeroDivisionError path when the divisor may be 0"""
        if z3.is_int_value(y):
            yv = y.as_long()
            if yv == 0:
                yield st, Raised(ExcVal(ZeroDivisionError))
                return
            branches = [(st, False)]
        elif st.spec:
            branches = [(st, False)]        # in a specification the divisor is not zero (unspecified otherwise)
        else:
            branches = list(self.branch(st, y == 0, "L%s:div0" % getattr(e, 'lineno', '?')))
        for s, is_zero in branches:
            if is_zero:
                yield s, Raised(ExcVal(ZeroDivisionError))
                continue
            # SMT-LIB div/mod are euclidean (0 <= remainder < |divisor|); python floors toward -inf (the remainder has the
            # sign of the divisor).  For a positive divisor they coincide; for a negative one with non-zero euclidean
            # remainder e:  python remainder = e + y,  python quotient = euclidean quotient - 1.
            qe, re_ = x / y, x % y
            if z3.is_int_value(y) and y.as_long() > 0:
                q, r = qe, re_
            else:
                adj = z3.And(y < 0, re_ != 0)
                q = z3.If(adj, qe - 1, qe)
                r = z3.If(adj, re_ + y, re_)
            yield s, V(q if isinstance(op, ast.FloorDiv) else r, INT)

    def int_range(self, t, st, lo, hi):
        """prove lo <= t <= hi under the path condition"""
        return self.entails(st, z3.And(t >= lo, t <= hi))

    def power(self, a, b2, st):
        if is_concrete(b2):
            x = self.term(a, INT)
            if b2 < 0:
                raise Outside("negative exponent")
            r = z3.IntVal(1)
            for _ in range(b2):
                r = r * x
            return V(r, INT)
        if is_concrete(a):
            # constant base, symbolic exponent: exact expansion over the exponent's range (must be provably small)
            ex = self.term(b2, INT)
            for hi in (63, 255):
                if self.int_range(ex, st, 0, hi):
                    r = z3.IntVal(a ** hi)
                    for k in range(hi - 1, -1, -1):
                        r = z3.If(ex == k, z3.IntVal(a ** k), r)
                    return V(r, INT)
            if isinstance(a, int) and a >= 2 and self.entails(st, ex >= 0):
                # larger exponents: exact below 64, and for k >= 64 some value that is at least a**64 (monotonicity of
                # the power; all that a comparison against a moderate constant needs)
                big = self.fresh_term('pow_big', z3.IntSort(), st)
                st.assume(z3.Implies(ex >= 64, big >= a ** 64))
                r = big
                for k in range(63, -1, -1):
                    r = z3.If(ex == k, z3.IntVal(a ** k), r)
                return V(r, INT)
            raise Outside("symbolic exponent without a small proven range")
        raise Outside("symbolic ** symbolic")

    def bit_and(self, a, b2, st):
        """x & c for a constant c with a single bit set and x >= 0:  ((x // c) % 2) * c"""
        c, x = (b2, a) if is_concrete(b2) else (a, b2)
        if not (isinstance(c, int) and c > 0 and c & (c - 1) == 0):
            raise Outside("bitwise and with a constant that is neither a low mask nor a single bit")
        xt = self.term(x, INT)
        if not self.entails(st, xt >= 0):
            raise Outside("bitwise and on a possibly negative value")
        return V(((xt / c) % 2) * c, INT)

    # ---------------------------------------------------------------------------------------------- attribute access

    def ev_Attribute(self, e, st):
        for s, v in self.ev(e.value, st):
            if isinstance(v, Raised):
                yield s, v
                continue
            yield from self.getattr_(v, e.attr, s, e)

    def getattr_(self, v, name, st, e=None):
        if isinstance(v, GhostNS):
            if name not in v.funcs:
                raise Outside("unknown ghost function G.%s" % name)
            yield st, ('ghost', v.funcs[name])
            return
        if isinstance(v, Ref):
            h = st.heap[v.loc]
            if h.kind == 'obj':
                if name in h.fields:
                    yield st, h.fields[name]
                    return
                cls = h.cls
                if isinstance(cls, LocalClass):
                    if name in cls.members:
                        node, is_prop = cls.members[name]
                        clo = Closure(node, cls.frame_index, cls.globs, node.name)
                        if is_prop:
                            yield from self.call_closure(clo, [v], {}, st)
                        else:
                            yield st, BoundMethod(v, clo)
                        return
                    raise Outside("attribute %s of local class" % name)
                attr = inspect_getattr_static(cls, name)
                if attr is None:
                    if st.spec:
                        raise Outside("unknown field %s.%s in specification" % (cls.__name__, name))
                    yield st, Raised(ExcVal(AttributeError))
                    return
                if isinstance(attr, property):
                    yield from self.call_function(attr.fget, [v], {}, st)
                    return
                if isinstance(attr, (classmethod, staticmethod)):
                    raise Outside("class/static method on instance")
                if callable(attr):
                    yield st, BoundMethod(v, attr, cls)
                    return
                yield st, attr
                return
            if h.kind == 'stream' and name in ('data', 'pos'):
                yield st, h.fields[name]       # the stream's contents and cursor (specifications only)
                return
            yield st, BuiltinMethod(v, name)
            return
        if isinstance(v, V):
            k = v.ty.kind
            if k == 'cls':
                yield from self.cls_getattr(v, name, st, e)
                return
            if k == 'opt':
                # attribute access on Optional: AttributeError path when None
                o = opt_sort(to_sort(v.ty.args[0], self.reg))
                if st.spec:
                    yield from self.getattr_(V(o.val(v.t), v.ty.args[0]), name, st, e)
                    return
                for s2, some in self.branch(st, o.is_some(v.t), "L%s:None?" % getattr(e, 'lineno', '?')):
                    if some:
                        yield from self.getattr_(V(o.val(v.t), v.ty.args[0]), name, s2, e)
                    else:
                        yield s2, Raised(ExcVal(AttributeError))
                return
            if k == 'tuple' and v.ty == self.pkbalance_ty() and name in ('value', 'output_references'):
                yield st, self.untuple(v)[0 if name == 'value' else 1]
                return
            yield st, BuiltinMethod(v, name)
            return
        if isinstance(v, EmptyMap):
            yield st, BuiltinMethod(v, name)
            return
        if isinstance(v, tuple) and v and v[0] in ('logger', 'opaque', 'external', 'lock', 'extobj'):
            # logging.Logger (A-LOG) and other effect-free collaborators: any method, no effect, returns None
            yield st, BuiltinMethod(v, name)
            return
        if isinstance(v, (int, bytes, str, list, tuple, dict)) and not isinstance(v, bool) or v is None:
            if v is None:
                yield st, Raised(ExcVal(AttributeError))
                return
            yield st, BuiltinMethod(v, name)
            return
        if isinstance(v, type) and v in self.reg.by_py or isinstance(v, type) and v in self.reg.abstract:
            attr = inspect_getattr_static(v, name)
            if isinstance(attr, classmethod):
                yield st, BoundMethod(v, attr.__func__, v)
                return
            if isinstance(attr, staticmethod):
                yield st, attr.__func__
                return
            if attr is not None:
                yield st, attr
                return
        # python modules / classes / other concrete objects: real attribute
        try:
            r = getattr(v, name)
        except AttributeError:
            raise Outside("attribute %s of %r" % (name, v))
        yield st, (self.singleton_refs.get(id(r), r) if self.singleton_refs else r)

    def pkbalance_ty(self):
        return TUPLE(INT, LIST(CLS('OutputReference'))) if 'OutputReference' in self.reg.classes else None

    @staticmethod
    def field_term(ci, name, t):
        """accessor applied to a term; a field of a constructor application is that argument (keeps terms small)"""
        if z3.is_app(t) and t.decl().eq(ci.ctor):
            return t.arg([f for f, _ in ci.fields].index(name))
        return ci.acc[name](t)

    def cls_getattr(self, v, name, st, e=None):
        root = self.reg.root_of(v.ty.args[0])
        cis = self.reg.concrete(root)
        declared = v.ty.args[0]
        if declared in self.reg.classes and len(cis) >= 1 and declared != root:
            cis = [self.reg.classes[declared]]
        elif declared in self.reg.classes and declared == root:
            cis = [c for c in cis] if len(cis) > 1 else cis
        if len(cis) > 1:
            # hierarchy root: case split on the constructor
            if st.spec:
                # fields with the same name in several subclasses: ite over recognizers
                outs = []
                for ci in cis:
                    if name in ci.acc:
                        outs.append((ci.recog(v.t), V(self.field_term(ci, name, v.t), dict(ci.fields)[name])))
                if not outs:
                    # a method that every concrete class inherits from the same place (serialize, deserialize)
                    attrs = {id(inspect_getattr_static(ci.pyclass, name)): inspect_getattr_static(ci.pyclass, name) for ci in cis}
                    if len(attrs) == 1:
                        (attr,) = attrs.values()
                        if attr is not None and callable(attr) and not isinstance(attr, (classmethod, staticmethod, property)):
                            yield st, BoundMethod(v, attr, cis[0].pyclass)
                            return
                    raise Outside("no field %s in hierarchy %s" % (name, root))
                r = outs[-1][1]
                t = r.t
                for rec, val in reversed(outs[:-1]):
                    t = z3.If(rec, val.t, t)
                yield st, V(t, r.ty)
                return
            for ci in cis:
                s2 = st.fork().assume(ci.recog(v.t), decision=True)
                s2.trace.append("isinstance:%s" % ci.name)
                if self.feasible(s2):
                    yield from self.cls_getattr(V(v.t, CLS(ci.name)), name, s2, e)
            return
        ci = cis[0]
        if name in ci.acc:
            yield st, V(self.field_term(ci, name, v.t), dict(ci.fields)[name])
            return
        if name == '__class__':
            yield st, ci.pyclass
            return
        attr = inspect_getattr_static(ci.pyclass, name)
        if attr is None:
            ga = inspect_getattr_static(ci.pyclass, '__getattr__')
            if ga is not None:
                yield from self.call_function(ga, [v, name], {}, st, inline=True)
                return
            if st.spec:
                raise Outside("no attribute %s on %s" % (name, ci.name))
            yield st, Raised(ExcVal(AttributeError))
            return
        if isinstance(attr, property):
            yield from self.call_function(attr.fget, [v], {}, st)
            return
        if isinstance(attr, classmethod):
            yield st, BoundMethod(ci.pyclass, attr.__func__, ci.pyclass)
            return
        if callable(attr):
            yield st, BoundMethod(V(v.t, CLS(ci.name)), attr, ci.pyclass)
            return
        yield st, attr

    # ---------------------------------------------------------------------------------------------- subscripts

    def ev_Subscript(self, e, st):
        for s, v in self.ev(e.value, st):
            if isinstance(v, Raised):
                yield s, v
                continue
            if isinstance(e.slice, ast.Slice):
                parts = [p for p in (e.slice.lower, e.slice.upper, e.slice.step)]
                for s2, ps in self.ev_list([p if p is not None else ast.Constant(None) for p in parts], s):
                    if isinstance(ps, Raised):
                        yield s2, ps
                        continue
                    yield s2, self.slice_(v, ps[0], ps[1], ps[2], s2)
                continue
            for s2, k in self.ev(e.slice, s):
                if isinstance(k, Raised):
                    yield s2, k
                    continue
                yield from self.index(v, k, s2, e)

    def slice_(self, v, lo, hi, step, st):
        if step is not None:
            raise Outside("slice step")
        lo, hi = self.unwrap_known_some(lo, st), self.unwrap_known_some(hi, st)
        if isinstance(v, Ref):
            v = self.lift(v, st)
        if is_concrete(v) and (lo is None or is_concrete(lo)) and (hi is None or is_concrete(hi)):
            return v[lo:hi]
        if isinstance(v, (list, tuple)) and (lo is None or is_concrete(lo)) and (hi is None or is_concrete(hi)):
            return v[lo:hi]
        v = self.lift(v, st)
        if v.ty.kind not in ('bytes', 'list', 'str'):
            raise Outside("slice of %r" % (v.ty,))
        n = self.norm_len(v.t, st) if v.ty.kind == 'bytes' else z3.Length(v.t)

        def norm(x, default):
            if x is None:
                return default, True
            t = self.term(x, INT)
            if is_concrete(x):
                if x == 0:
                    return z3.IntVal(0), True
                if x > 0:
                    if self.entails(st, n >= x):
                        return t, True
                    return z3.If(t > n, n, t), False
                if self.entails(st, n + t >= 0):
                    return n + t, True
                return z3.If(n + t < 0, 0, n + t), False
            # symbolic bound: use it as is when it is provably within 0..len (keeps terms small)
            if self.entails(st, z3.And(t >= 0, t <= n)):
                return t, True
            if self.entails(st, t >= 0):
                return z3.If(t > n, n, t), False
            return z3.If(t < 0, z3.If(n + t < 0, 0, n + t), z3.If(t > n, n, t)), False
        a, a_ok = norm(lo, z3.IntVal(0))
        b2, b_ok = norm(hi, n)
        if lo is None or (is_concrete(lo) and lo == 0):
            ln = b2
        elif hi is None and a_ok:
            ln = n - a
        elif self.entails(st, b2 >= a):
            ln = b2 - a
        else:
            ln = z3.If(b2 > a, b2 - a, 0)
        ln = z3.simplify(ln)
        if v.ty.kind == 'bytes':
            return V(self.mk_extract(v.t, a, ln, st), v.ty)
        return V(z3.SubSeq(v.t, a, ln), v.ty)

    def index(self, v, k, st, e=None):
        line = getattr(e, 'lineno', '?')
        if isinstance(v, Ref):
            h = st.heap[v.loc]
            if h.kind in ('list', 'dict', 'set'):
                if h.val is None:
                    if st.spec:
                        raise Outside("index into empty untyped container in spec")
                    yield st, Raised(ExcVal(KeyError if h.kind == 'dict' else IndexError))
                    return
                v = h.val
            else:
                fld = self.delegating_dunder(h, '__getitem__', None)
                if fld is None:
                    raise Outside("subscript on object")
                yield from self.index(h.fields[fld], k, st, e)
                return
        if isinstance(v, EmptyMap):
            if st.spec:
                raise Outside("index into an empty map in a specification")
            yield st, Raised(ExcVal(KeyError, origin=line))
            return
        if isinstance(v, dict):
            if is_concrete(k) or isinstance(k, tuple):
                if k in v:
                    yield st, v[k]
                else:
                    yield st, Raised(ExcVal(KeyError))
                return
            # concrete dict (a module constant), symbolic key
            for s2, present in self.branch(st, self.b(self.contains(v, k, st)), "L%s:key?" % line):
                if not present:
                    yield s2, Raised(ExcVal(KeyError))
                    continue
                items = list(v.items())
                r = self.lift(items[-1][1], s2)
                t = r.t
                for kk, vv in reversed(items[:-1]):
                    t = z3.If(self.b(self.py_eq(k, kk, s2)), self.term(vv, r.ty), t)
                yield s2, V(t, r.ty)
            return
        if isinstance(v, (tuple, list)):
            if is_concrete(k):
                try:
                    yield st, v[k]
                except IndexError:
                    yield st, Raised(ExcVal(IndexError))
                return
            # concrete tuple/list, symbolic index: ite chain over the positions (negative indices wrap as in python)
            n = len(v)
            kt = self.term(k, INT)
            if st.spec:
                raise Outside("symbolic index into python tuple in a specification")
            for s2, ok in self.branch(st, z3.And(kt >= -n, kt < n), "L%s:idx?" % line):
                if not ok:
                    yield s2, Raised(ExcVal(IndexError, origin=line))
                    continue
                idx = z3.If(kt < 0, kt + n, kt)
                lifted = [self.lift(x, s2) for x in v]
                r = lifted[-1]
                t = r.t
                for j in range(n - 2, -1, -1):
                    t = z3.If(idx == j, self.term(lifted[j], r.ty, s2), t)
                yield s2, V(t, r.ty)
            return
        if is_concrete(v) and is_concrete(k):
            try:
                yield st, v[k]
            except IndexError:
                yield st, Raised(ExcVal(IndexError))
            return
        v = self.lift(v, st)
        kind = v.ty.kind
        if kind == 'map' and isinstance(k, V) and k.ty.kind == 'opt' and v.ty.args[0].kind != 'opt':
            # Optional key into a map with non-optional keys: None is never a key
            ok = opt_sort(to_sort(k.ty.args[0], self.reg))
            inner = V(ok.val(k.t), k.ty.args[0])
            if st.spec:
                yield from self.index(v, inner, st, e)
                return
            for s2, some in self.branch(st, ok.is_some(k.t), "L%s:key-None?" % line):
                if some:
                    yield from self.index(v, inner, s2, e)
                else:
                    yield s2, Raised(ExcVal(KeyError, origin=line))
            return
        if kind == 'arr':
            if isinstance(k, V) and k.ty.kind == 'opt' and v.ty.args[0].kind != 'opt':
                k = V(opt_sort(to_sort(k.ty.args[0], self.reg)).val(k.t), k.ty.args[0])    # ghost arrays: spec only
            yield st, V(z3.Select(v.t, self.key_term(k, v.ty.args[0], st)), v.ty.args[1])
            return
        if kind == 'map':
            o = opt_sort(to_sort(v.ty.args[1], self.reg))
            cell = z3.Select(v.t, self.key_term(k, v.ty.args[0], st))
            if st.spec:
                yield st, V(o.val(cell), v.ty.args[1])
                return
            for s2, present in self.branch(st, o.is_some(cell), "L%s:key?" % line):
                if present:
                    yield s2, V(o.val(cell), v.ty.args[1])
                else:
                    yield s2, Raised(ExcVal(KeyError, origin=line))
            return
        if kind in ('list', 'bytes'):
            n = z3.Length(v.t)
            if is_concrete(k) and k < 0:
                idx = n + k
            else:
                idx = self.term(k, INT)
            elem = v.t[idx]
            if kind == 'list' and z3.is_app(v.t) and v.t.decl().kind() == z3.Z3_OP_SEQ_EXTRACT:
                # element of a slice: the same element of the base sequence (in range, which is what is asked below)
                elem = v.t.arg(0)[z3.simplify(v.t.arg(1) + idx)]
            res = V(z3.BV2Int(elem), INT) if kind == 'bytes' else V(elem, v.ty.args[0])
            if st.spec:
                yield st, res
                return
            if is_concrete(k):
                inrange = (n > k) if k >= 0 else (n + k >= 0)
            else:
                t = self.term(k, INT)
                # negative symbolic indices wrap in python; require non-negative or report
                inrange = z3.And(t >= 0, t < n)
                neg = st.fork().assume(t < 0)
                if self.feasible(neg):
                    raise Outside("possibly negative symbolic index at line %s" % line)
            for s2, ok in self.branch(st, inrange, "L%s:idx?" % line):
                if ok:
                    if kind == 'list':
                        self.assume_valid(res, s2)
                    yield s2, res
                else:
                    yield s2, Raised(ExcVal(IndexError, origin=line))
            return
        if kind == 'tuple':
            if is_concrete(k):
                yield st, self.untuple(v)[k]
                return
        if kind == 'cls' and v.ty.args[0] in self.reg.classes:
            # a value class with its own __getitem__ (under contract)
            fn = inspect_getattr_static(self.reg.classes[v.ty.args[0]].pyclass, '__getitem__')
            if fn is not None and callable(fn):
                yield from self.call_function(fn, [v, k], {}, st)
                return
        raise Outside("subscript on %r (line %s)" % (v.ty, line))

    # ---------------------------------------------------------------------------------------------- comprehensions

    def ev_ListComp(self, e, st):
        yield from self.comprehension(e, st, 'list')

    def ev_GeneratorExp(self, e, st):
        yield from self.comprehension(e, st, 'gen')

    def ev_SetComp(self, e, st):
        """{x for x in S if c(x)} over a set S (the element expression is the variable itself): the set of the members of
        S satisfying c, as an array lambda"""
        if len(e.generators) != 1 or not isinstance(e.elt, ast.Name) or not isinstance(e.generators[0].target, ast.Name) \
                or e.elt.id != e.generators[0].target.id or e.generators[0].is_async:
            raise Outside("set comprehension (only {x for x in S if c(x)} is interpreted)")
        g = e.generators[0]
        for s, base in self.ev(g.iter, st):
            if isinstance(base, Raised):
                yield s, base
                continue
            bv = self.lift(base, s) if isinstance(base, Ref) else base
            if not (isinstance(bv, V) and bv.ty.kind == 'set'):
                raise Outside("set comprehension over %r" % (bv,))
            ety = bv.ty.args[0]
            x = self.fresh('sx', ety)
            sub = s.fork()
            sub.stack.append(Frame({g.target.id: x}, len(sub.stack) - 1, sub.frame.globs, sub.frame.qualname))
            sub.bound = list(s.bound) + [x.t]
            sub.spec = True       # conditions are evaluated as formulas over the bound element
            conds = []
            for c in g.ifs:
                outs = list(self.ev(c, sub))
                if len(outs) != 1 or isinstance(outs[0][1], Raised):
                    raise Outside("set comprehension condition must be a pure expression")
                conds.append(self.b(self.truth(outs[0][1], outs[0][0])))
            body = z3.And(z3.Select(bv.t, x.t), *conds) if conds else z3.Select(bv.t, x.t)
            yield s, self.new_container(s, 'set', V(z3.Lambda([x.t], body), bv.ty))

    def ev_DictComp(self, e, st):
        yield from self.dict_comprehension(e, st)

    def ev_Lambda(self, e, st):
        fd = ast.FunctionDef(name='<lambda>', args=e.args, body=[ast.Return(value=e.body, lineno=e.lineno, col_offset=0)],
                             decorator_list=[], returns=None, lineno=e.lineno, col_offset=0)
        yield st, Closure(fd, self.capture(st), st.frame.globs, '<lambda>')

    def ev_Call(self, e, st):
        yield from self.call_expr(e, st)

    def ev_Starred(self, e, st):
        raise Outside("starred expression")


def inspect_getattr_static(cls, name):
    for k in cls.__mro__:
        if name in k.__dict__:
            return k.__dict__[name]
    return None
