"""pyvc: contract-based deductive verification of real Python functions (ast -> verification conditions -> z3/cvc5)."""
from .types import (T, INT, BOOL, BYTES, STR, NONE, ANY, OPT, LIST, SET, MAP, TUPLE, CLS, ARR, Outside, Registry)
from .engine import V, Ref, State
from .spec import Contract, ContractSet, LoopSpec
from .verify import Verifier, StateShape
