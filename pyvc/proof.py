"""Structured lemma scripts: every step names the facts it is derived from (`using`), so each obligation is a small
problem that z3 decides the same way on every run.  Dropping hypotheses is always sound; a step that really needs more
fails and the script is corrected - it can never prove too much.

    P = Proof(v, st)
    P.assume('ih-b', "every(OutputReference, lambda r: ...)")          # hypothesis of the lemma
    P.use('tx', "skepticoin.balances.uto_apply_transaction", unspent_transaction_outs=Mi, ...)   # verified contract
    P.have('not-spent', "all(...)", using=['h-distinct', 'k1-range'])  # proved here, usable below
    P.inst('ih-b@rk', 'ih-b', rk)                                      # instance of a universal fact (sound, no proof)
"""
from __future__ import annotations
import z3
from .engine import Obligation, V
from .inst import peel, conjuncts


class Proof:
    def __init__(self, v, st, prefix):
        self.v = v
        self.st = st
        self.prefix = prefix
        self.facts = {}

    def fork(self):
        p = Proof(self.v, self.st.fork(), self.prefix)
        p.facts = dict(self.facts)
        return p

    # ---- facts without proof obligations
    def assume(self, name, text_or_formula, env=None):
        f = self.v.b(self.v.spec_bool(text_or_formula, self.st, env)) if isinstance(text_or_formula, str) else text_or_formula
        self.st.assume(f)
        self.facts[name] = f
        return f

    def let(self, name, text, env=None):
        val = self.v.spec_value(text, self.st, env)
        self.st.frame.vars[name] = val
        return val

    def fresh(self, name, ty):
        val = self.v.fresh(name, ty)
        self.st.frame.vars[name] = val
        return val

    def use(self_, name, qualname, _returned=False, **args):
        self = self_
        """facts of a verified contract instantiated at args (see Verifier.use_contract); they are recorded under
        name[0], name[1], ... and name (conjunction)"""
        proved = self.v.use_contract(self.st, qualname, _returned=_returned, **args)
        new = list(self.v.last_used_facts)
        for k, f in enumerate(new):
            self.facts["%s[%d]" % (name, k)] = f        # k = index of the ensures clause in the contract
        self.facts[name] = z3.And(*new) if len(new) != 1 else new[0]
        return proved

    def inst(self, name, fact, *terms, **kw):
        """instance of a universally quantified fact (possibly guarded: A ==> forall x. ...) at the given terms"""
        f = self.facts[fact] if isinstance(fact, str) else fact
        p = peel(f, 'pi')
        ts = [t.t if isinstance(t, V) else (z3.IntVal(t) if isinstance(t, int) else t) for t in terms]
        if len(ts) > len(p.consts):
            raise ValueError("too many terms for %s" % fact)
        consts = p.consts[:len(ts)]
        body = z3.Implies(z3.And(*p.guards), p.body) if p.guards else p.body
        inst = z3.substitute(body, *zip(consts, ts))
        rest = p.consts[len(ts):]
        if rest:
            inst = z3.ForAll(rest, inst)
        self.st.assume(inst)
        self.facts[name] = inst
        return inst

    def axioms(self):
        return list(self.v.axioms) + list(self.v.func_axioms)

    def resolve(self, using, with_axioms):
        hyps = []
        for u in using:
            if isinstance(u, str):
                if u not in self.facts:
                    raise KeyError("unknown fact %s (have: %s)" % (u, ", ".join(sorted(self.facts))))
                hyps.append(self.facts[u])
            else:
                hyps.append(u)
        if with_axioms == 'ground':
            hyps += [a for a in self.v.func_axioms]
        elif with_axioms:
            hyps += self.axioms()
        return hyps

    # ---- proved facts
    def have(self, name, text_or_formula, using=(), axioms='ground', env=None, keep=True):
        v = self.v
        f = v.b(v.spec_bool(text_or_formula, self.st, env)) if isinstance(text_or_formula, str) else text_or_formula
        hyps = self.resolve(using, axioms)
        ob = Obligation(self.prefix + name, hyps, f,
                        (text_or_formula if isinstance(text_or_formula, str) else str(f)[:160]) + "   [from: %s]" % ", ".join(
                            u if isinstance(u, str) else '<formula>' for u in using))
        v.obligations.append(ob)
        if keep:
            self.st.assume(f)
            self.facts[name] = f
        return f

    def forall_intro(self, name, text, proved_by, env=None):
        """records a universally quantified fact whose arbitrary instance was proved by the named step(s) on skolem
        constants that occur nowhere else in this proof state (forall-introduction; the justification is structural)"""
        f = self.v.b(self.v.spec_bool(text, self.st, env))
        self.st.assume(f)
        self.facts[name] = f
        return f
