"""Statements, loops (cut at contract invariants), comprehensions and reductions."""
from __future__ import annotations
import ast
import importlib

import z3

from .types import (T, INT, BOOL, BYTES, STR, NONE, ANY, OPT, LIST, SET, MAP, TUPLE, CLS, Outside, to_sort, opt_sort,
                    tuple_sort, BYTES_SORT)
from .engine import (EmptyMap, EMPTY_MAP, RangeV, IterV, V, Ref, HeapObj, ExcVal, Raised, Closure, BoundMethod, BuiltinMethod, LocalClass, Frame, State,
                     is_concrete)
from .interp import Ctl, _is_true, _is_false
from .calls import Calls


class AssignedNames(ast.NodeVisitor):
    """names (and heap paths) written by a loop body — what gets havoced at the loop head"""

    def __init__(self):
        self.names = set()
        self.mutated = set()      # source text of expressions whose object is mutated in place

    def visit_Name(self, n):
        if isinstance(n.ctx, (ast.Store, ast.Del)):
            self.names.add(n.id)

    def visit_Attribute(self, n):
        if isinstance(n.ctx, (ast.Store, ast.Del)):
            self.mutated.add(ast.unparse(n.value))
        self.generic_visit(n)

    def visit_Subscript(self, n):
        if isinstance(n.ctx, (ast.Store, ast.Del)):
            self.mutated.add(ast.unparse(n.value))
        self.generic_visit(n)

    def visit_Call(self, n):
        if isinstance(n.func, ast.Attribute) and n.func.attr in (
                'append', 'add', 'pop', 'insert', 'clear', 'update', 'extend', 'remove', 'write', 'read', 'seek',
                'discard', 'setdefault', 'popitem'):
            self.mutated.add(ast.unparse(n.func.value))
        self.generic_visit(n)

    def visit_FunctionDef(self, n):
        self.names.add(n.name)

    def visit_ListComp(self, n):
        for g in n.generators:
            self.visit(g.iter)
            for c in g.ifs:
                self.visit(c)
        self.visit(n.elt)

    visit_GeneratorExp = visit_ListComp


class Stmts(Calls):

    # ================================================================================================ blocks

    def exec_block(self, stmts, st):
        """generator of (state, Ctl | None)"""
        if not stmts:
            yield st, None
            return
        head, rest = stmts[0], stmts[1:]
        for s, ctl in self.exec_stmt(head, st):
            if ctl is not None:
                yield s, ctl
            else:
                yield from self.exec_block(rest, s)

    def exec_stmt(self, node, st):
        m = getattr(self, 'st_' + type(node).__name__, None)
        if m is None:
            raise Outside("statement %s at line %s" % (type(node).__name__, node.lineno))
        self.path_steps += 1
        return m(node, st)

    def st_Pass(self, node, st):
        yield st, None

    def st_Expr(self, node, st):
        if isinstance(node.value, ast.Constant):
            yield st, None      # docstring
            return
        for s, v in self.ev(node.value, st):
            yield s, (Ctl('raise', v.exc) if isinstance(v, Raised) else None)

    def st_Continue(self, node, st):
        yield st, Ctl('continue', None)

    def st_Break(self, node, st):
        yield st, Ctl('break', None)

    def st_Return(self, node, st):
        if node.value is None:
            yield st, Ctl('return', None)
            return
        for s, v in self.ev(node.value, st):
            yield s, (Ctl('raise', v.exc) if isinstance(v, Raised) else Ctl('return', v))

    def st_Raise(self, node, st):
        if node.exc is None:
            exc = st.frame.vars.get('!active_exc')
            if exc is None:
                raise Outside("bare raise outside handler")
            yield st, Ctl('raise', exc)
            return
        for s, v in self.ev(node.exc, st):
            if isinstance(v, Raised):
                yield s, Ctl('raise', v.exc)
            elif isinstance(v, ExcVal):
                v.origin = node.lineno
                yield s, Ctl('raise', v)
            elif isinstance(v, type) and issubclass(v, BaseException):
                yield s, Ctl('raise', ExcVal(v, (), node.lineno))
            else:
                raise Outside("raise of %r" % (v,))

    def st_Assert(self, node, st):
        for s, v in self.ev(node.test, st):
            if isinstance(v, Raised):
                yield s, Ctl('raise', v.exc)
                continue
            for s2, ok in self.branch(s, self.truth(v, s), "L%s:assert" % node.lineno):
                yield s2, (None if ok else Ctl('raise', ExcVal(AssertionError, (), node.lineno)))

    def st_Global(self, node, st):
        """module-level state that functions re-bind: what a call reads is whatever an earlier call left there - an
        arbitrary value of the declared type; a write is an effect outside every frame (reported under :frame)"""
        from .types import from_annotation
        globs = st.frame.globs
        ann = globs.get('__annotations__', {})
        for name in node.names:
            ty = None
            if name in ann:
                try:
                    ty = from_annotation(ann[name], self.reg, globs)
                except Outside:
                    ty = None
            if ty is None or ty.kind == 'any':
                cur = globs.get(name)
                if is_concrete(cur) and cur is not None:
                    ty = self.lift(cur).ty
            if ty is None or ty.kind == 'any':
                raise Outside("global %s: its type is unknown (no module-level annotation)" % name)
            val = self.fresh('global_' + name, ty)
            self.assume_valid(val, st)
            st.frame.vars[name] = val
            st.frame.vars['!global:' + name] = True
        yield st, None

    def st_Import(self, node, st):
        for a in node.names:
            mod = importlib.import_module(a.name)
            st.frame.vars[a.asname or a.name.split('.')[0]] = mod if a.asname else importlib.import_module(a.name.split('.')[0])
        yield st, None

    def st_ImportFrom(self, node, st):
        if node.level:
            raise Outside("relative import inside function")
        mod = importlib.import_module(node.module)
        for a in node.names:
            st.frame.vars[a.asname or a.name] = getattr(mod, a.name)
        yield st, None

    def st_FunctionDef(self, node, st):
        st.frame.vars[node.name] = Closure(node, self.capture(st), st.frame.globs,
                                           st.frame.qualname + '.<locals>.' + node.name)
        yield st, None

    def st_ClassDef(self, node, st):
        st.frame.vars[node.name] = LocalClass(node, self.capture(st), st.frame.globs)
        yield st, None

    def st_If(self, node, st):
        for s, v in self.ev(node.test, st):
            if isinstance(v, Raised):
                yield s, Ctl('raise', v.exc)
                continue
            for s2, side in self.branch(s, self.truth(v, s), "L%s" % node.lineno):
                yield from self.exec_block(node.body if side else node.orelse, s2)

    # ------------------------------------------------------------------------------------------------ assignment

    def st_Assign(self, node, st):
        for s, v in self.ev(node.value, st):
            if isinstance(v, Raised):
                yield s, Ctl('raise', v.exc)
                continue
            outs = [(s, None)]
            for tgt in node.targets:
                nxt = []
                for s2, c in outs:
                    if c is not None:
                        nxt.append((s2, c))
                    else:
                        nxt.extend(self.assign(tgt, v, s2))
                outs = nxt
            yield from outs

    def st_AnnAssign(self, node, st):
        if node.value is None:
            yield st, None
            return
        for s, v in self.ev(node.value, st):
            if isinstance(v, Raised):
                yield s, Ctl('raise', v.exc)
            else:
                if isinstance(v, EmptyMap):
                    # the annotation gives the empty map its type
                    from .types import from_annotation
                    try:
                        ty = from_annotation(ast.unparse(node.annotation), self.reg, s.frame.globs)
                        if ty.kind == 'map':
                            v = V(self.term(v, ty, s), ty)
                    except Outside:
                        pass
                yield from self.assign(node.target, v, s)

    def st_AugAssign(self, node, st):
        load = ast.copy_location(self._as_load(node.target), node.target)
        for s, vs in self.ev_list([load, node.value], st):
            if isinstance(vs, Raised):
                yield s, Ctl('raise', vs.exc)
                continue
            cur, inc = vs
            if isinstance(cur, Ref) and isinstance(node.op, ast.Add) and s.heap[cur.loc].kind == 'list':
                raise Outside("list += ")
            for s2, r in self.binop(node.op, cur, inc, s, node):
                if isinstance(r, Raised):
                    yield s2, Ctl('raise', r.exc)
                else:
                    yield from self.assign(node.target, r, s2)

    @staticmethod
    def _as_load(t):
        t2 = ast.parse(ast.unparse(t), mode='eval').body
        return t2

    def assign(self, tgt, v, st):
        """generator of (state, Ctl|None)"""
        if isinstance(tgt, ast.Name):
            if isinstance(v, Ref) and st.heap[v.loc].kind in ('list', 'set', 'dict') and st.heap[v.loc].val is None:
                # an empty container literal bound to a local whose element type the contract declares
                con = self.contracts.get(st.frame.qualname)
                t = con.local_types.get(tgt.id) if con is not None else None
                if t is not None:
                    t = t(st.frame.vars) if callable(t) else t
                    h = st.heap[v.loc]
                    if t.kind == 'list':
                        h.val = V(z3.Empty(to_sort(t, self.reg)), t)
                    elif t.kind == 'set':
                        h.val = V(z3.K(to_sort(t.args[0], self.reg), z3.BoolVal(False)), t)
                    elif t.kind == 'map':
                        h.val = V(z3.K(to_sort(t.args[0], self.reg), opt_sort(to_sort(t.args[1], self.reg)).none), t)
            if st.frame.vars.get('!global:' + tgt.id) and not st.spec:
                self.oblige(st, z3.BoolVal(False), (st.frame.qualname or '?') + ":frame",
                            "assignment to the module-level variable %s (state outside every contract's frame)" % tgt.id)
            st.frame.vars[tgt.id] = v
            yield st, None
            return
        if isinstance(tgt, (ast.Tuple, ast.List)):
            if isinstance(v, V) and v.ty.kind == 'tuple':
                v = self.untuple(v)
            if not isinstance(v, tuple) or len(v) != len(tgt.elts):
                raise Outside("unpacking of %r at line %s" % (v, tgt.lineno))
            outs = [(st, None)]
            for t2, x in zip(tgt.elts, v):
                nxt = []
                for s2, c in outs:
                    if c is not None:
                        nxt.append((s2, c))
                    else:
                        nxt.extend(self.assign(t2, x, s2))
                outs = nxt
            yield from outs
            return
        if isinstance(tgt, ast.Attribute):
            for s, obj in self.ev(tgt.value, st):
                if isinstance(obj, Raised):
                    yield s, Ctl('raise', obj.exc)
                    continue
                if isinstance(obj, V) and obj.ty.kind == 'cls':
                    # value classes are modelled as immutable: a write is a frame violation of the enclosing function
                    self.oblige(s, z3.BoolVal(False), "%s:frame" % (self.current or s.frame.qualname),
                                "line %s assigns to attribute %s of a %s object" % (tgt.lineno, tgt.attr, obj.ty.args[0]))
                    yield s, None
                    continue
                if not isinstance(obj, Ref) or s.heap[obj.loc].kind != 'obj':
                    raise Outside("attribute assignment on a non-heap value at line %s" % tgt.lineno)
                h = s.heap[obj.loc]
                if h.frozen:
                    raise Outside("assignment to field of frozen object")
                h.fields[tgt.attr] = v
                s.writes += 1
                yield s, None
            return
        if isinstance(tgt, ast.Subscript):
            for s, vs in self.ev_list([tgt.value, tgt.slice], st):
                if isinstance(vs, Raised):
                    yield s, Ctl('raise', vs.exc)
                    continue
                cont, key = vs
                if not isinstance(cont, Ref):
                    raise Outside("item assignment on immutable value at line %s" % tgt.lineno)
                h = s.heap[cont.loc]
                if h.kind == 'dict':
                    vl = self.lift(v, s) if not isinstance(v, Ref) else v
                    if isinstance(vl, Ref):
                        if h.val is not None and h.val.ty.args[1] == INT:
                            # a map declared to hold objects as opaque ids (only its key set matters to the contracts)
                            v = vl = V(z3.IntVal(vl.loc), INT)
                        else:
                            raise Outside("dict of mutable objects at line %s" % tgt.lineno)
                    if h.val is None:
                        kl = self.lift(key, s)
                        mty = MAP(kl.ty, vl.ty)
                        base = z3.K(to_sort(kl.ty, self.reg), opt_sort(to_sort(vl.ty, self.reg)).none)
                    else:
                        mty, base = h.val.ty, h.val.t
                    o = opt_sort(to_sort(mty.args[1], self.reg))
                    new = V(z3.Store(base, self.key_term(key, mty.args[0], s), o.some(self.term(v, mty.args[1], s))), mty)
                    self._store_container(s, cont, h, new)
                    yield s, None
                    continue
                raise Outside("item assignment on %s at line %s" % (h.kind, tgt.lineno))
            return
        raise Outside("assignment target %s" % type(tgt).__name__)

    def st_Delete(self, node, st):
        outs = [(st, None)]
        for tgt in node.targets:
            nxt = []
            for s, c in outs:
                if c is not None:
                    nxt.append((s, c))
                    continue
                nxt.extend(self.delete(tgt, s))
            outs = nxt
        yield from outs

    def delete(self, tgt, st):
        if isinstance(tgt, ast.Subscript):
            for s, vs in self.ev_list([tgt.value, tgt.slice], st):
                if isinstance(vs, Raised):
                    yield s, Ctl('raise', vs.exc)
                    continue
                cont, key = vs
                if not isinstance(cont, Ref):
                    raise Outside("del on immutable value at line %s" % tgt.lineno)
                h = s.heap[cont.loc]
                if h.kind == 'dict':
                    if h.val is None:
                        yield s, Ctl('raise', ExcVal(KeyError, (), tgt.lineno))
                        continue
                    o = opt_sort(to_sort(h.val.ty.args[1], self.reg))
                    kt = self.key_term(key, h.val.ty.args[0], s)
                    for s2, present in self.branch(s, o.is_some(z3.Select(h.val.t, kt)), "L%s:del" % tgt.lineno):
                        if present:
                            h2 = s2.heap[cont.loc]
                            self._store_container(s2, cont, h2, V(z3.Store(h2.val.t, kt, o.none), h2.val.ty))
                            yield s2, None
                        else:
                            yield s2, Ctl('raise', ExcVal(KeyError, (), tgt.lineno))
                    continue
                raise Outside("del on %s" % h.kind)
            return
        raise Outside("del target %s" % type(tgt).__name__)

    # ------------------------------------------------------------------------------------------------ with / try

    def st_With(self, node, st):
        if len(node.items) != 1:
            raise Outside("multi-item with")
        item = node.items[0]
        for s, cm in self.ev(item.context_expr, st):
            if isinstance(cm, Raised):
                yield s, Ctl('raise', cm.exc)
                continue
            handler = self.with_handler(cm, s)
            entered = handler['enter'](s)
            if item.optional_vars is not None:
                outs = list(self.assign(item.optional_vars, entered, s))
            else:
                outs = [(s, None)]
            for s2, c in outs:
                if c is not None:
                    yield s2, c
                    continue
                for s3, ctl in self.exec_block(node.body, s2):
                    handler['exit'](s3, ctl)
                    yield s3, ctl

    def with_handler(self, cm, st):
        # threading.Lock: no-op (single-threaded semantics inside one call)
        if isinstance(cm, V) and cm.ty.kind == 'any' or cm is None or (isinstance(cm, tuple) and cm and cm[0] == 'lock'):
            return {'enter': lambda s: None, 'exit': lambda s, c: None}
        if isinstance(cm, Ref) and st.heap[cm.loc].kind == 'dict':
            # immutables.Map.mutate(): the mutation object itself
            return {'enter': lambda s: cm, 'exit': lambda s, c: None}
        if isinstance(cm, Ref) and st.heap[cm.loc].kind == 'file':
            def close(s, c):
                self.file_close(cm, s)
            return {'enter': lambda s: cm, 'exit': close}
        raise Outside("with on %r" % (cm,))

    def st_Try(self, node, st):
        for s, ctl in self.exec_block(node.body, st):
            if ctl is not None and ctl.kind == 'raise':
                exc = ctl.val
                handled = False
                for h in node.handlers:
                    if self.exc_matches(exc, h, s):
                        handled = True
                        if h.name:
                            s.frame.vars[h.name] = exc
                        s.frame.vars['!active_exc'] = exc
                        for s2, c2 in self.exec_block(h.body, s):
                            yield from self._finally(node, s2, c2)
                        break
                if not handled:
                    yield from self._finally(node, s, ctl)
            elif ctl is None and node.orelse:
                for s2, c2 in self.exec_block(node.orelse, s):
                    yield from self._finally(node, s2, c2)
            else:
                yield from self._finally(node, s, ctl)

    def _finally(self, node, st, ctl):
        if not node.finalbody:
            yield st, ctl
            return
        for s, c in self.exec_block(node.finalbody, st):
            yield s, (c if c is not None else ctl)

    def exc_matches(self, exc, handler, st):
        if handler.type is None:
            return True
        outs = list(self.ev(handler.type, st))
        if len(outs) != 1 or isinstance(outs[0][1], Raised):
            raise Outside("exception handler type")
        t = outs[0][1]
        classes = t if isinstance(t, tuple) else (t,)
        if exc.cls is AnyException:
            # an unknown exception class: matches `except Exception` / BaseException only
            return any(c in (Exception, BaseException) for c in classes)
        return any(isinstance(c, type) and issubclass(exc.cls, c) for c in classes)

    # ================================================================================================ loops

    def st_While(self, node, st):
        yield from self.loop(node, st, None)

    def st_For(self, node, st):
        for s, it in self.ev(node.iter, st):
            if isinstance(it, Raised):
                yield s, Ctl('raise', it.exc)
                continue
            yield from self.loop(node, s, it)

    def iter_view(self, it, st):
        """(length term or None, element function i -> value(s)) of an iterable"""
        if isinstance(it, Ref):
            h = st.heap[it.loc]
            if h.kind in ('list',):
                if h.val is None:
                    return 0, None
                it = h.val
            elif h.kind in ('dict', 'set') and h.val is not None:
                # `for k in d`: the keys, each once, in an unknown order (A-ITER)
                return self.iter_view(self.enumerate_map(h.val, 'keys', st), st)
            else:
                raise Outside("iteration over mutable %s" % h.kind)
        if isinstance(it, (list,)):
            return len(it), (lambda i: it[i]) if True else None
        if isinstance(it, RangeV):
            lo, hi, step = it.lo, it.hi, it.step
            if not (is_concrete(step) and step in (1,)):
                if is_concrete(step) and step > 1 and is_concrete(lo):
                    hit, lot = self.term(hi, INT), self.term(lo, INT)
                    cnt = z3.If(hit > lot, (hit - lot + step - 1) / step, 0)
                    if is_concrete(hi):
                        cnt = len(range(lo, hi, step))
                    return cnt, (lambda i: self._add(lo, self._mul(i, step)))
                raise Outside("range with step %r" % (step,))
            if is_concrete(lo) and is_concrete(hi):
                return max(0, hi - lo), (lambda i: self._add(lo, i))
            n = self.term(hi, INT) - self.term(lo, INT)
            if is_concrete(lo) and lo == 0 and self.entails(st, n >= 0):
                return n, (lambda i: i)
            return z3.If(n > 0, n, 0), (lambda i: self._add(lo, i))
        if isinstance(it, IterV) and it.kind == 'enumerate':
            n, f = self.iter_view(it.base, st)
            return n, (lambda i: (i, f(i)))
        if isinstance(it, IterV) and it.kind == 'reversed':
            n, f = self.iter_view(it.base, st)
            return n, (lambda i: f(self._sub(self._sub(n, 1), i)))
        if isinstance(it, IterV):
            return self.iter_view(self.enumerate_map(it.base, it.kind, st), st)
        if isinstance(it, tuple):
            return len(it), (lambda i: it[i])
        if isinstance(it, V) and it.ty.kind in ('list',):
            t = it.t
            if z3.is_app(t) and t.decl().kind() == z3.Z3_OP_SEQ_EXTRACT:
                # a slice s[a:a+n]: iterate over the base sequence so that facts are stated about s itself
                base, off, ln = t.arg(0), z3.simplify(t.arg(1)), z3.simplify(t.arg(2))
                blen = z3.Length(base)
                if self.entails(st, z3.And(off >= 0, ln >= 0, off + ln <= blen)):
                    n_eff = ln
                else:
                    n_eff = z3.simplify(z3.If(z3.And(off >= 0, off <= blen, ln > 0), z3.If(off + ln > blen, blen - off, ln), 0))
                if z3.is_int_value(off) and off.as_long() == 0:
                    return n_eff, (lambda i: V(base[self.term(i, INT)], it.ty.args[0]))
                return n_eff, (lambda i: V(base[off + self.term(i, INT)], it.ty.args[0]))
            ed = self.elem_defs.get(t.get_id())
            if ed is not None and ed[0].eq(t):
                _seq, ivar, val_t, ety = ed
                return z3.Length(it.t), (lambda i: V(z3.substitute(val_t, (ivar, self.term(i, INT))), ety))
            return z3.Length(it.t), (lambda i: V(it.t[self.term(i, INT)], it.ty.args[0]))
        if isinstance(it, V) and it.ty.kind == 'bytes':
            return z3.Length(it.t), (lambda i: V(z3.BV2Int(it.t[self.term(i, INT)]), INT))
        if isinstance(it, V) and it.ty.kind in ('map', 'set'):
            return self.iter_view(self.enumerate_map(it, 'keys', st), st)
        raise Outside("iteration over %r" % (it,))

    def _add(self, a, b):
        if is_concrete(a) and is_concrete(b):
            return a + b
        return V(self.term(a, INT) + self.term(b, INT), INT)

    def _sub(self, a, b):
        if is_concrete(a) and is_concrete(b):
            return a - b
        if isinstance(a, z3.ExprRef):
            a = V(a, INT)
        return V(self.term(a, INT) - self.term(b, INT), INT)

    def _mul(self, a, b):
        if is_concrete(a) and is_concrete(b):
            return a * b
        return V(self.term(a, INT) * self.term(b, INT), INT)

    def loop(self, node, st, it):
        is_for = isinstance(node, ast.For)
        n = f = None
        if is_for:
            n, f = self.iter_view(it, st)
            if is_concrete(n) and n <= self.UNROLL_LIMIT and not self.loop_has_contract(node, st):
                yield from self.unroll(node, st, n, f, 0)
                return
        spec = self.loop_spec(node, st)
        if spec is None:
            raise Outside("loop at line %s of %s has no invariant in the contract (and cannot be unrolled)"
                          % (node.lineno, st.frame.qualname))
        yield from self.loop_with_invariant(node, st, n, f, spec)

    UNROLL_LIMIT = 12

    def unroll(self, node, st, n, f, i):
        if i >= n:
            if node.orelse:
                yield from self.exec_block(node.orelse, st)
            else:
                yield st, None
            return
        for s, c in self.assign(node.target, f(i), st):
            if c is not None:
                yield s, c
                continue
            for s2, ctl in self.exec_block(node.body, s):
                if ctl is None or ctl.kind == 'continue':
                    yield from self.unroll(node, s2, n, f, i + 1)
                elif ctl.kind == 'break':
                    yield s2, None
                else:
                    yield s2, ctl

    def loop_has_contract(self, node, st):
        return self.loop_spec(node, st) is not None

    def loop_spec(self, node, st):
        con = self.contracts.get(st.frame.qualname)
        if con is None:
            return None
        # loop ordinal: position among the loops of the function in source order
        fnode = self.loop_index.get(st.frame.qualname)
        if fnode is None:
            # an inlined function with loop invariants in its contract: index its loops on demand
            try:
                func = self.resolve(st.frame.qualname)
                fn_node, _ = self.func_ast(func)
                self.index_loops(st.frame.qualname, fn_node)
                fnode = self.loop_index.get(st.frame.qualname)
            except Exception:
                return None
            if fnode is None:
                return None
        ordinal = fnode.get((node.lineno, node.col_offset))
        return con.loops.get(ordinal)

    def loop_with_invariant(self, node, st, n, f, spec):
        """cut the loop at its invariant.  What is havoced at the loop head: the names the body assigns, the containers it
        mutates syntactically, and - found by executing the body - every heap cell that existed before the loop and differs
        after some iteration (objects mutated through calls); the run is repeated until that set is closed."""
        extra = []
        for _attempt in range(5):
            mark = len(self.obligations)
            results = []
            missing = self._loop_once(node, st.fork(), n, f, spec, extra, results)
            if not missing:
                yield from results
                return
            del self.obligations[mark:]
            extra = extra + [m for m in missing if m not in extra]
        raise Outside("the set of heap cells a loop body changes did not close")

    def _heap_changes(self, before, after_st, havoced):
        out = []
        for loc, h0 in before.items():
            h1 = after_st.heap.get(loc)
            if h1 is None or h1 is h0:
                continue
            if h0.kind in ('list', 'set', 'dict'):
                a, b = h0.val, h1.val
                if a is b or (isinstance(a, V) and isinstance(b, V) and a.t is not None and b.t is not None and a.t.eq(b.t)):
                    continue
                if (loc, None) not in havoced:
                    out.append((loc, None))
            elif h0.fields is not None and h1.fields is not None:
                for fn_, a in h0.fields.items():
                    if fn_.startswith('!'):
                        continue
                    b = h1.fields.get(fn_)
                    if a is b:
                        continue
                    if isinstance(a, V) and isinstance(b, V) and a.t is not None and b.t is not None and a.t.eq(b.t):
                        continue
                    if isinstance(a, Ref) and isinstance(b, Ref) and a.loc == b.loc:
                        continue
                    if not isinstance(a, (V, Ref)) and not isinstance(b, (V, Ref)):
                        try:
                            if a == b:
                                continue
                        except Exception:
                            pass
                    key = (loc, None) if h0.kind == 'stream' else (loc, fn_)
                    if key not in havoced and key not in out:
                        out.append(key)
        return out

    def _loop_once(self, node, st, n, f, spec, extra, results):
        qn = st.frame.qualname
        is_for = isinstance(node, ast.For)
        label = "%s:loop[%d]" % (qn, spec.ordinal)
        # 1. what the body writes
        an = AssignedNames()
        for b in node.body:
            an.visit(b)
        if is_for:
            an.visit(node.target)
        written = sorted(x for x in an.names if x in st.frame.vars or True)
        mutated_refs = []
        for src in sorted(an.mutated):
            try:
                outs = list(self.ev(ast.parse(src, mode='eval').body, st.fork()))
            except Outside:
                continue
            for _s, r in outs:
                if isinstance(r, Ref):
                    mutated_refs.append(r)
        # 2. establish
        idx0 = 0
        self.check_invariant(st, spec, idx0, n, label + ":establish", node)
        # 3. havoc + assume invariant at an arbitrary iteration
        body_st = st.fork()
        i = self.fresh_term('i', z3.IntSort())
        self.havoc(body_st, written, mutated_refs, node, is_for, extra)
        head_heap = {loc: h.copy() for loc, h in body_st.heap.items()}
        havoced = set(extra) | {(r.loc, None) for r in mutated_refs}
        missing = []
        if is_for:
            body_st.assume(z3.And(i >= 0, self.b(self._lt(i, n))))
        body_st.frame.vars['!idx:' + spec.index_name] = V(i, INT)
        try:
            first = f(V(z3.IntVal(0), INT))
            if isinstance(first, V) and first.t is not None and z3.is_app_of(first.t, z3.Z3_OP_SEQ_NTH):
                seq_t = first.t.arg(0)
                body_st.frame.vars['ITERATED'] = V(seq_t, LIST(first.ty))
                st.frame.vars['ITERATED'] = V(seq_t, LIST(first.ty))
        except Exception:
            pass
        self.assume_invariant(body_st, spec, V(i, INT), n)
        body_st.trace.append("L%s:loop-body" % node.lineno)
        exits = []      # break paths
        if is_for:
            elem = f(V(i, INT))
            self.instantiate_element_facts(body_st, elem, i)
            for x in (elem if isinstance(elem, tuple) else (elem,)):
                if isinstance(x, V) and x.ty.kind in ('cls', 'tuple', 'opt'):
                    self.assume_valid(x, body_st)
            entry = list(self.assign(node.target, elem, body_st))
        else:
            entry = []
            for s, v in self.ev(node.test, body_st):
                if isinstance(v, Raised):
                    results.append((s, Ctl('raise', v.exc)))
                    continue
                for s2, side in self.branch(s, self.truth(v, s), "L%s:while" % node.lineno):
                    if side:
                        entry.append((s2, None))
                    else:
                        exits.append(s2)        # loop exit with invariant + negated guard
        for s, c in entry:
            if c is not None:
                results.append((s, c))
                continue
            measure0 = None
            if spec.decreases:
                measure0 = self.spec_value(spec.decreases, s, extra={'i': V(i, INT)})
            for s2, ctl in self.exec_block(node.body, s):
                if ctl is None or ctl.kind == 'continue':
                    for m in self._heap_changes(head_heap, s2, havoced):
                        if m not in missing:
                            missing.append(m)
                    self.check_invariant(s2, spec, V(i + 1, INT), n, label + ":preserve", node)
                    if measure0 is not None:
                        m1 = self.spec_value(spec.decreases, s2, extra={'i': V(i + 1, INT)})
                        self.oblige(s2, z3.And(self.term(measure0, INT) >= 0, self.term(m1, INT) < self.term(measure0, INT)),
                                    label + ":decreases")
                elif ctl.kind == 'break':
                    exits.append(s2)
                else:
                    results.append((s2, ctl))
        # 4. after the loop
        if is_for:
            after = st
            self.havoc(after, written, mutated_refs, node, is_for, extra)
            self.assume_invariant(after, spec, self.lift_int(n), n)
            after.trace.append("L%s:loop-exit" % node.lineno)
            if self.feasible(after):
                if node.orelse:
                    results.extend(self.exec_block(node.orelse, after))
                else:
                    results.append((after, None))
            for s in exits:
                results.append((s, None))
        else:
            for s in exits:
                results.append((s, None))
        return missing

    def instantiate_element_facts(self, st, elem, i):
        """the loop visits element i of a sequence that is characterised by element-wise facts (forall k. ... seq[k] ...):
        state their instance at i (an instance of an assumed fact; saves the solver the search)"""
        for x in (elem if isinstance(elem, tuple) else (elem,)):
            if not (isinstance(x, V) and x.t is not None and z3.is_app_of(x.t, z3.Z3_OP_SEQ_NTH)):
                continue
            seq = x.t.arg(0)
            for h in list(st.pc):
                if not (z3.is_quantifier(h) and h.is_forall() and h.num_vars() == 1 and h.var_sort(0) == z3.IntSort()):
                    continue
                body = h.body()
                found = False
                todo = [body]
                seen = set()
                while todo and not found:
                    e = todo.pop()
                    if e.get_id() in seen:
                        continue
                    seen.add(e.get_id())
                    if z3.is_app_of(e, z3.Z3_OP_SEQ_NTH) and e.arg(0).eq(seq) and z3.is_var(e.arg(1)):
                        found = True
                    elif z3.is_app(e):
                        todo.extend(e.children())
                if found:
                    st.assume(z3.substitute_vars(body, i))

    def lift_int(self, n):
        return n if isinstance(n, V) or is_concrete(n) else V(n, INT)

    def _lt(self, i, n):
        if is_concrete(n):
            return i < n
        return i < (n.t if isinstance(n, V) else n)

    def havoc(self, st, names, refs, node, is_for, extra=()):
        for loc, fld in extra:
            h = st.heap[loc]
            if fld is None and h.kind in ('list', 'set', 'dict'):
                if not any(r.loc == loc for r in refs):
                    refs = list(refs) + [Ref(loc)]
            elif h.kind == 'stream':
                before = h.fields['pos'].t
                h.fields['data'] = self.fresh('f.data', BYTES)
                h.fields['pos'] = self.fresh('f.pos', INT)
                self.stream_moved(st, h, before)
                st.writes += 1
            else:
                oldv = h.fields.get(fld)
                if isinstance(oldv, V):
                    h.fields[fld] = self.fresh(fld, oldv.ty)
                elif h.field_types and fld in h.field_types and not isinstance(oldv, Ref):
                    h.fields[fld] = self.fresh(fld, h.field_types[fld])
                else:
                    raise Outside("loop body re-binds field %s (holding %s) of an object" % (fld, type(oldv).__name__))
                st.writes += 1
        for name in names:
            if name in st.frame.vars:
                old = st.frame.vars[name]
                if isinstance(old, Ref):
                    h = st.heap[old.loc]
                    if h.kind in ('list', 'set', 'dict') and h.val is not None:
                        # the name may be re-bound to a new container; give it a fresh cell with a fresh value
                        nv = self.fresh(name, h.val.ty)
                        st.frame.vars[name] = self.new_container(st, h.kind, nv)
                        continue
                    if h.kind in ('list', 'set', 'dict'):
                        ty = self.loop_var_type(st, name)
                        st.frame.vars[name] = self.new_container(st, h.kind, self.fresh(name, ty))
                        continue
                    raise Outside("loop re-binds object variable %s" % name)
                if isinstance(old, V) or is_concrete(old):
                    lv = self.lift(old) if old is not None else None
                    ty = lv.ty if lv is not None else self.loop_var_type(st, name)
                    if old is None:
                        ty = self.loop_var_type(st, name)
                    st.frame.vars[name] = self.fresh(name, ty)
                    continue
                if isinstance(old, tuple):
                    raise Outside("loop re-binds tuple variable %s" % name)
                raise Outside("loop re-binds %s of kind %r" % (name, type(old).__name__))
            # not bound before the loop: bound inside before use (loop target, temporaries)
        for r in refs:
            h = st.heap[r.loc]
            if h.kind in ('list', 'set', 'dict'):
                if h.val is None:
                    ty = self.container_type_hint(st, r)
                    h.val = self.fresh('c', ty)
                else:
                    h.val = self.fresh('c', h.val.ty)
                st.writes += 1
            # fields of objects assigned in the body are found by executing it (see loop_with_invariant)

    def loop_var_type(self, st, name):
        con = self.contracts.get(st.frame.qualname)
        if con is not None and name in con.local_types:
            t = con.local_types[name]
            return t(st.frame.vars) if callable(t) else t
        raise Outside("type of loop-carried variable %s unknown: add c.local(%s=...) to the contract of %s"
                      % (name, name, st.frame.qualname))

    def container_type_hint(self, st, ref):
        con = self.contracts.get(st.frame.qualname)
        for name, val in st.frame.vars.items():
            if isinstance(val, Ref) and val.loc == ref.loc and con is not None and name in con.local_types:
                t = con.local_types[name]
                return t(st.frame.vars) if callable(t) else t
        raise Outside("type of an empty container mutated in a loop is unknown in %s: add c.local(name=TYPE)"
                      % st.frame.qualname)

    def invariant_env(self, st, spec, i, n):
        env = {}
        # indices of enclosing loops (declared names), then this loop's own index
        for k, val in st.frame.vars.items():
            if isinstance(k, str) and k.startswith('!idx:'):
                env[k[5:]] = val
        env[spec.index_name] = i
        return env

    def check_invariant(self, st, spec, i, n, name, node):
        for k, text in enumerate(spec.invariants):
            goal = self.spec_bool(text, st, extra=self.invariant_env(st, spec, i, n))
            self.oblige(st, goal, "%s[%d]" % (name, k), "line %s: %s" % (node.lineno, text))

    def assume_invariant(self, st, spec, i, n):
        for text in spec.invariants:
            st.assume(self.b(self.spec_bool(text, st, extra=self.invariant_env(st, spec, i, n))))

    # ================================================================================================ comprehensions

    def comp_parts(self, comp):
        if len(comp.generators) != 1:
            raise Outside("comprehension with several for-clauses")
        g = comp.generators[0]
        if g.is_async:
            raise Outside("async comprehension")
        return g.target, g.iter, g.ifs, comp.elt

    def eval_under_index(self, target, f, idx, exprs, st, inrange=None):
        """evaluate exprs with `target` bound to element idx of the iterable; returns list of (state, [vals]|Raised)
        executed in an isolated fork whose path condition starts empty (conditions are collected relative to st)"""
        sub = st.fork()
        if inrange is not None:
            # everything derived below is used under `inrange ==>` only; knowing it keeps slices / indices simple
            sub.assume(inrange)
        base = len(sub.pc)
        base_d = len(sub.dec)
        sub.stack.append(Frame({}, len(sub.stack) - 1, sub.frame.globs, sub.frame.qualname))
        if isinstance(idx, V):
            sub.bound = list(st.bound) + [idx.t]
        res = []
        self.last_element_facts = []
        self.last_raise_facts = []
        for s, c in self.assign(target, f(idx), sub):
            if c is not None:
                raise Outside("raising assignment in comprehension")
            for s2, vs in self.ev_list(exprs, s):
                # outcomes are told apart by their decisions; everything else assumed on the way (callee post-conditions)
                # is a consequence that holds for the element whenever that outcome is taken
                dec = self._and(s2.dec[base_d:])
                res.append((s2, vs, dec))
                facts = [x for x in s2.pc[base:] if not any(x is d_ or x.eq(d_) for d_ in s2.dec[base_d:])]
                if facts and not isinstance(vs, Raised):
                    self.last_element_facts.append((dec, self._and(facts)))
                if isinstance(vs, Raised):
                    self.last_raise_facts.append((dec, self._and(facts)))
        return res

    def raising_element(self, i, wj, inrange):
        """formula: element wj is in range and took one of the raising outcomes (its decisions and what was assumed
        on that outcome, e.g. the callee's raises_only_if)"""
        alts = [z3.And(self.b(d), self.b(f)) for d, f in self.last_raise_facts]
        return z3.substitute(z3.And(inrange, z3.Or(*alts) if len(alts) > 1 else alts[0]), (i, wj))

    def assume_element_facts(self, st, i, inrange):
        """forall i in range: outcome decisions(i) ==> facts assumed on that outcome (i)"""
        for dec, facts in getattr(self, 'last_element_facts', []):
            if not _is_true(facts):
                st.assume(z3.ForAll([i], z3.Implies(z3.And(inrange, self.b(dec)), self.b(facts))))
        self.last_element_facts = []

    def comprehension(self, comp, st, kind):
        target, iter_e, ifs, elt = self.comp_parts(comp)
        for s, it in self.ev(iter_e, st):
            if isinstance(it, Raised):
                yield s, it
                continue
            n, f = self.iter_view(it, s)
            if is_concrete(n) and n <= 64:
                yield from self._comp_unrolled(comp, s, n, f, kind)
                continue
            yield from self._comp_symbolic(comp, s, n, f, kind)

    def _comp_unrolled(self, comp, st, n, f, kind):
        target, iter_e, ifs, elt = self.comp_parts(comp)

        def go(s, i, acc):
            if i >= n:
                yield s, acc
                return
            s.stack.append(Frame({}, len(s.stack) - 1, s.frame.globs, s.frame.qualname))
            for s1, c in self.assign(target, f(i), s):
                def after_ifs(s2, k):
                    if k >= len(ifs):
                        for s3, v in self.ev(elt, s2):
                            s3.stack.pop()
                            if isinstance(v, Raised):
                                yield s3, v
                            else:
                                yield from go(s3, i + 1, acc + [v])
                        return
                    for s3, c3 in self.ev(ifs[k], s2):
                        if isinstance(c3, Raised):
                            s3.stack.pop()
                            yield s3, c3
                            continue
                        for s4, side in self.branch(s3, self.truth(c3, s3), "comp-if"):
                            if side:
                                yield from after_ifs(s4, k + 1)
                            else:
                                s4.stack.pop()
                                yield from go(s4, i + 1, acc)
                yield from after_ifs(s1, 0)
        for s, acc in go(st, 0, []):
            if isinstance(acc, Raised):
                yield s, acc
            elif kind == 'raw':
                yield s, acc
            elif s.spec:
                yield s, list(acc)
            else:
                yield s, self.new_list(s, acc)

    def _comp_symbolic(self, comp, st, n, f, kind):
        """[elt for x in seq (if c)] over a symbolic-length sequence: a fresh sequence characterised by quantified
        facts (map: element-wise; filter: order-preserving index maps)."""
        target, iter_e, ifs, elt = self.comp_parts(comp)
        i = self.fresh_term('ci', z3.IntSort())
        nt = n if not is_concrete(n) else z3.IntVal(n)
        inrange = z3.And(i >= 0, i < nt)
        outs = self.eval_under_index(target, f, V(i, INT), list(ifs) + [elt], st, inrange=inrange)
        normal = [(s2, vs, c) for s2, vs, c in outs if not isinstance(vs, Raised)]
        raising = [(s2, vs, c) for s2, vs, c in outs if isinstance(vs, Raised)]
        if raising and not st.spec:
            # some element makes the comprehension raise
            rcond = self._or([c for _, _, c in raising])
            s_r = st.fork()
            wj = self.fresh_term('raising_at', z3.IntSort())       # skolem: an element whose evaluation raises
            s_r.assume(self.raising_element(i, wj, inrange))
            if self.feasible(s_r):
                yield s_r, Raised(raising[0][1].exc)
        if not normal:
            return
        # on the non-raising path every element took one of the normal outcomes (a raising outcome may share its
        # decisions with a normal one - e.g. which exception class a callee raises - so "not raising" is NOT assumed)
        if not st.spec and any(not _is_true(c) for _s, _v, c in normal):
            st.assume(z3.ForAll([i], z3.Implies(inrange, self.b(self._or([c for _s, _v, c in normal])))))
        if not st.spec:
            self.assume_element_facts(st, i, inrange)
        # merged element value and filter condition as functions of i
        ety = None
        for s2, vs, c in normal:
            ety = self.lift(vs[-1], s2).ty
            break
        val_t = None
        cond_t = None
        for s2, vs, c in reversed(normal):
            vt = self.term(vs[-1], ety, s2)
            ct = self._and([self.b(self.truth(x, s2)) for x in vs[:-1]]) if ifs else True
            val_t = vt if val_t is None else z3.If(self.b(c), vt, val_t)
            cond_t = self.b(ct) if cond_t is None else z3.If(self.b(c), self.b(ct), cond_t)
        r = self.fresh('comp', LIST(ety))
        if not ifs:
            named = self.lifted_map(val_t, i, nt, to_sort(ety, self.reg))
            if named is not None:
                r = V(named, LIST(ety))
            st.assume(z3.Length(r.t) == nt)
            st.assume(z3.ForAll([i], z3.Implies(inrange, r.t[i] == val_t)))
            # element i of this sequence, as a term (used when the sequence is iterated or indexed in range)
            self.elem_defs[r.t.get_id()] = (r.t, i, val_t, ety)
        else:
            # filter: r[k] = val(idx(k)), idx strictly increasing into the kept positions, onto them (inv)
            tag = next(self.fresh_counter)
            idx = z3.Function('idx!%d' % tag, z3.IntSort(), z3.IntSort())
            inv = z3.Function('inv!%d' % tag, z3.IntSort(), z3.IntSort())
            k = self.fresh_term('k', z3.IntSort())
            k2 = self.fresh_term('k2', z3.IntSort())
            sub = lambda t, x: z3.substitute(t, (i, x))
            st.assume(z3.And(z3.Length(r.t) >= 0, z3.Length(r.t) <= nt))
            st.assume(z3.ForAll([k], z3.Implies(z3.And(0 <= k, k < z3.Length(r.t)),
                                                z3.And(0 <= idx(k), idx(k) < nt, sub(cond_t, idx(k)),
                                                       r.t[k] == sub(val_t, idx(k)), inv(idx(k)) == k))))
            st.assume(z3.ForAll([k, k2], z3.Implies(z3.And(0 <= k, k < k2, k2 < z3.Length(r.t)), idx(k) < idx(k2))))
            st.assume(z3.ForAll([i], z3.Implies(z3.And(inrange, cond_t),
                                                z3.And(0 <= inv(i), inv(i) < z3.Length(r.t), idx(inv(i)) == i))))
            # if every element passes the filter, nothing is dropped (a strictly increasing map onto 0..n-1 is the identity)
            # stated with a skolem witness w for "some element fails the filter" (same formula, quantifier-free shape)
            w = self.fresh_term('dropped_at', z3.IntSort())
            some_fail = z3.substitute(z3.And(inrange, z3.Not(cond_t)), (i, w))
            base_seq = self._identity_source(val_t, i, nt)
            ground_part = z3.Length(r.t) == nt if base_seq is None else z3.And(z3.Length(r.t) == nt, r.t == base_seq)
            st.assume(z3.Or(some_fail, ground_part))                                                  # quantifier-free
            st.assume(z3.Or(some_fail, z3.ForAll([k], z3.Implies(z3.And(0 <= k, k < nt), idx(k) == k))))
        if kind == 'raw' or st.spec:
            yield st, r
        else:
            yield st, self.new_container(st, 'list', r)

    @staticmethod
    def _identity_source(val_t, i, nt):
        """if the element expression is seq[i] for a sequence of length nt, that sequence"""
        if z3.is_app(val_t) and val_t.decl().kind() == z3.Z3_OP_SEQ_NTH and val_t.arg(1).eq(i):
            base = val_t.arg(0)
            if z3.simplify(z3.Length(base) == nt).eq(z3.BoolVal(True)) or z3.Length(base).eq(nt):
                return base
        return None

    def dict_comprehension(self, e, st):
        raise Outside("dict comprehension")

    def reduce_comprehension(self, fname, comp, st, e):
        """sum/all/any/min/max/list over a generator"""
        target, iter_e, ifs, elt = self.comp_parts(comp)
        if st.spec and fname in ('all', 'any'):
            yield from self.spec_quantifier(fname, comp, st)
            return
        for s, it in self.ev(iter_e, st):
            if isinstance(it, Raised):
                yield s, it
                continue
            n, f = self.iter_view(it, s)
            if is_concrete(n) and n <= 64:
                for s2, acc in self._comp_unrolled(comp, s, n, f, 'raw'):
                    if isinstance(acc, Raised):
                        yield s2, acc
                        continue
                    yield from self._reduce_concrete(fname, acc, s2)
                continue
            if fname == 'sum':
                yield from self._sum_symbolic(comp, s, n, f)
            elif fname in ('all', 'any'):
                yield from self._allany_symbolic(fname, comp, s, n, f)
            elif fname == 'list':
                yield from self._comp_symbolic(comp, s, n, f, 'list')
            else:
                raise Outside("%s() over a symbolic-length generator" % fname)

    def _reduce_concrete(self, fname, acc, st):
        if fname == 'sum':
            r = 0
            for x in acc:
                r = self._add(r, x)
            yield st, r
        elif fname == 'all':
            t = self._and([self.truth(x, st) for x in acc])
            yield st, (t if isinstance(t, bool) else V(t, BOOL))
        elif fname == 'any':
            t = self._or([self.truth(x, st) for x in acc])
            yield st, (t if isinstance(t, bool) else V(t, BOOL))
        elif fname in ('min', 'max'):
            if not acc:
                yield st, Raised(ExcVal(ValueError))
            else:
                yield st, self._minmax(acc, st, fname == 'min')
        elif fname == 'list':
            yield st, self.new_list(st, acc)
        elif fname == 'tuple':
            yield st, tuple(acc)
        else:
            raise Outside("%s() over generator" % fname)

    def _sum_symbolic(self, comp, st, n, f):
        """sum(elt for x in seq): prefix-sum ghost function, canonical per (element expression, captured terms)"""
        target, iter_e, ifs, elt = self.comp_parts(comp)
        i = self.fresh_term('si', z3.IntSort())
        outs = self.eval_under_index(target, f, V(i, INT), list(ifs) + [elt], st)
        normal = [(s2, vs, c) for s2, vs, c in outs if not isinstance(vs, Raised)]
        raising = [(s2, vs, c) for s2, vs, c in outs if isinstance(vs, Raised)]
        nt = n if not is_concrete(n) else z3.IntVal(n)
        inrange = z3.And(i >= 0, i < nt)
        if raising and not st.spec:
            rcond = self._or([c for _, _, c in raising])
            s_r = st.fork()
            j = self.fresh_term('j', z3.IntSort())
            s_r.assume(self.raising_element(i, j, inrange))
            if self.feasible(s_r):
                s_r.trace.append("L%s:sum-element-raises" % comp.lineno)
                yield s_r, Raised(raising[0][1].exc)
        if not normal:
            return
        if not st.spec and any(not _is_true(c) for _s, _v, c in normal):
            # what holds for every element on the non-raising outcomes (callee post-conditions, branch conditions)
            st.assume(z3.ForAll([i], z3.Implies(inrange, self.b(self._or([c for _s, _v, c in normal])))))
        if not st.spec:
            self.assume_element_facts(st, i, inrange)
        val_t = None
        for s2, vs, c in reversed(normal):
            vt = self.term(vs[-1], INT, s2)
            if ifs:
                ct = self._and([self.b(self.truth(x, s2)) for x in vs[:-1]])
                vt = z3.If(self.b(ct), vt, 0)
            val_t = vt if val_t is None else z3.If(self.b(c), vt, val_t)
        yield st, V(self.lifted_sum(val_t, i, nt), INT)

    def lifted_sum(self, val_t, idx, n):
        """sum_{k<n} val_t[idx:=k] as PS_shape(params..., n): the summand is lambda-lifted over its maximal idx-free
        subterms, so sums of the same shape in different functions (or under different bound variables) are the same
        ghost function applied to their own parameters.  Defining axioms (prefix recursion) are global."""
        # (no z3.simplify here: it rewrites seq.nth into length-guarded forms, which would make equal sums look different)
        params = []

        def contains_idx(x, memo={}):
            k = x.get_id()
            if k in memo and memo[k][1].eq(x):
                return memo[k][0]
            if x.eq(idx):
                r = True
            elif z3.is_app(x):
                r = any(contains_idx(c) for c in x.children())
            elif z3.is_quantifier(x):
                r = True        # be conservative: do not lift terms with binders
            else:
                r = False
            memo[k] = (r, x)
            return r

        def collect(x):
            if not contains_idx(x):
                if z3.is_int_value(x) or z3.is_true(x) or z3.is_false(x) or z3.is_bv_value(x):
                    return
                if not any(p.eq(x) for p, _ph in params):
                    params.append((x, z3.Const('P!%d' % len(params), x.sort())))
                return
            if z3.is_app(x):
                for c in x.children():
                    collect(c)
                return
            raise Outside("summand with a binder that depends on the summation index")
        collect(val_t)
        shape = z3.substitute(val_t, *params) if params else val_t
        # canonical index name so that equal shapes have equal keys
        cidx = z3.Int('S!i')
        shape = z3.substitute(shape, (idx, cidx))
        key = shape.sexpr() + '|' + ','.join(str(ph.sort()) for _p, ph in params)
        phs = [ph for _p, ph in params]
        if key not in self.sum_cache:
            ps = z3.Function('psum!%d' % len(self.sum_cache), *([ph.sort() for ph in phs] + [z3.IntSort(), z3.IntSort()]))
            self.sum_cache[key] = (ps, shape, phs)
            zero = ps(*(phs + [z3.IntVal(0)])) == 0
            step = z3.Implies(cidx >= 0, ps(*(phs + [cidx + 1])) == ps(*(phs + [cidx])) + shape)
            if phs:
                self.axioms.append(z3.ForAll(phs, zero, patterns=[ps(*(phs + [z3.IntVal(0)]))]))
            else:
                self.axioms.append(zero)
            self.axioms.append(z3.ForAll(phs + [cidx], step, patterns=[ps(*(phs + [cidx + 1]))]))
        ps, shape0, phs0 = self.sum_cache[key]
        args = [p for p, _ph in params]
        app = ps(*(args + [n]))
        # ground unfoldings on the occurring term (so that instantiated / ground proofs need no quantifier)
        if not self.has_free_bound(args + [n]):
            self.add_func_axiom(ps(*(args + [z3.IntVal(0)])) == 0)
            inst_shape = z3.substitute(shape0, *(list(zip(phs0, args)) + [(cidx, n - 1)]))
            self.add_func_axiom(z3.Implies(n - 1 >= 0, app == ps(*(args + [n - 1])) + inst_shape))
            # prefix stability: a sum over the first k elements of `base + [x]` is the sum over the first k elements of
            # `base` (k <= len(base)) when the summand reads the list only at the summation index (lemma by induction on
            # k: both sides unfold with the same summand, since (base + [x])[i] == base[i] for i < len(base))
            for pi_, (a_, ph_) in enumerate(zip(args, phs0)):
                if not (z3.is_seq(a_) and z3.is_app_of(a_, z3.Z3_OP_SEQ_CONCAT)
                        and z3.is_app_of(a_.arg(a_.num_args() - 1), z3.Z3_OP_SEQ_UNIT)):
                    continue
                if not self._only_indexed_at(shape0, ph_, cidx):
                    continue
                rest = [a_.arg(k) for k in range(a_.num_args() - 1)]
                base = rest[0] if len(rest) == 1 else z3.Concat(*rest)
                args_b = list(args)
                args_b[pi_] = base
                for k in (n, z3.simplify(n - 1)):
                    self.add_func_axiom(z3.Implies(z3.And(k >= 0, k <= z3.Length(base)),
                                                   ps(*(args + [k])) == ps(*(args_b + [k]))))
                    # and the base's own unfolding at k
                    inst_b = z3.substitute(shape0, *(list(zip(phs0, args_b)) + [(cidx, k - 1)]))
                    self.add_func_axiom(z3.Implies(k - 1 >= 0, ps(*(args_b + [k])) == ps(*(args_b + [k - 1])) + inst_b))
        return app

    def has_free_bound(self, terms):
        return False

    @staticmethod
    def _only_indexed_at(shape, ph, cidx):
        """every occurrence of the placeholder ph in shape is as the sequence operand of seq.nth at index cidx"""
        ok = True
        todo = [shape]
        seen = set()
        while todo and ok:
            e = todo.pop()
            if e.get_id() in seen:
                continue
            seen.add(e.get_id())
            if e.eq(ph):
                ok = False
            elif z3.is_app_of(e, z3.Z3_OP_SEQ_NTH) and e.arg(0).eq(ph):
                if not e.arg(1).eq(cidx):
                    ok = False
            elif z3.is_app(e):
                todo.extend(e.children())
            elif z3.is_quantifier(e):
                ok = False
        return ok

    def lifted_map(self, val_t, idx, n, sort):
        """the sequence [val_t[idx:=k] for k < n] as PM_shape(params..., n) (same lambda lifting as lifted_sum): two
        comprehensions of the same shape over the same parameters are the same term.  Sound by extensionality: length
        and every element are fixed by the facts the caller states."""
        # (no z3.simplify here: it rewrites seq.nth into length-guarded forms, which would make equal sums look different)
        params = []

        def contains_idx(x, memo={}):
            k = x.get_id()
            if k in memo and memo[k][1].eq(x):
                return memo[k][0]
            if x.eq(idx):
                r = True
            elif z3.is_app(x):
                r = any(contains_idx(c) for c in x.children())
            elif z3.is_quantifier(x):
                r = True
            else:
                r = False
            memo[k] = (r, x)
            return r

        def collect(x):
            if not contains_idx(x):
                if z3.is_int_value(x) or z3.is_true(x) or z3.is_false(x) or z3.is_bv_value(x):
                    return True
                if not any(p.eq(x) for p, _ph in params):
                    params.append((x, z3.Const('PM!%d' % len(params), x.sort())))
                return True
            if z3.is_app(x):
                return all(collect(c) for c in x.children())
            return False
        if not collect(val_t):
            return None
        shape = z3.substitute(val_t, *params) if params else val_t
        cidx = z3.Int('M!i')
        shape = z3.substitute(shape, (idx, cidx))
        key = 'map|' + shape.sexpr() + '|' + ','.join(str(ph.sort()) for _p, ph in params)
        if key not in self.sum_cache:
            pm = z3.Function('pmap!%d' % len(self.sum_cache), *([ph.sort() for _p, ph in params] + [z3.IntSort(), z3.SeqSort(sort)]))
            self.sum_cache[key] = (pm, shape, [ph for _p, ph in params])
        pm = self.sum_cache[key][0]
        return pm(*([p for p, _ph in params] + [n]))

    def _allany_symbolic(self, fname, comp, st, n, f):
        target, iter_e, ifs, elt = self.comp_parts(comp)
        i = self.fresh_term('qi', z3.IntSort())
        outs = self.eval_under_index(target, f, V(i, INT), list(ifs) + [elt], st)
        if any(isinstance(vs, Raised) for _, vs, _ in outs):
            raise Outside("raising element in all()/any()")
        nt = n if not is_concrete(n) else z3.IntVal(n)
        body = None
        for s2, vs, c in reversed(outs):
            t = self.b(self.truth(vs[-1], s2))
            if ifs:
                ct = self._and([self.b(self.truth(x, s2)) for x in vs[:-1]])
                t = z3.Implies(self.b(ct), t) if fname == 'all' else z3.And(self.b(ct), t)
            body = t if body is None else z3.If(self.b(c), t, body)
        rng = z3.And(i >= 0, i < nt)
        q = z3.ForAll([i], z3.Implies(rng, body)) if fname == 'all' else z3.Exists([i], z3.And(rng, body))
        yield st, V(q, BOOL)

    def spec_quantifier(self, fname, comp, st):
        """all(P for j in range(a, b)) / all(P for x in seq) in contract text -> forall / exists"""
        target, iter_e, ifs, elt = self.comp_parts(comp)
        (s, it), = list(self.ev(iter_e, st))
        if isinstance(it, Ref):
            it = self.lift(it, s)
        if it == 'ALL-INTS':
            m = self.fresh('m', INT)
            sub = st.fork()
            sub.stack.append(Frame({}, len(sub.stack) - 1, sub.frame.globs, sub.frame.qualname))
            sub.bound = st.bound + [m.t]
            outs = []
            for s1, c in self.assign(target, m, sub):
                for s2, vs in self.ev_list(list(ifs) + [elt], s1):
                    outs.append((s2, vs))
            if len(outs) != 1 or isinstance(outs[0][1], Raised):
                raise Outside("quantifier body must be a pure expression")
            s2, vs = outs[0]
            t = self.b(self.truth(vs[-1], s2))
            yield st, V(z3.ForAll([m.t], t) if fname == 'all' else z3.Exists([m.t], t), BOOL)
            return
        mapv = it.base if isinstance(it, IterV) and it.kind in ('keys', 'values', 'items') else it
        if isinstance(mapv, Ref):
            mapv = self.lift(mapv, s)
        if isinstance(mapv, V) and mapv.ty.kind in ('map', 'set'):
            # quantification over the keys (values / items) of a finite map: forall k: K. k in m ==> body
            kty = mapv.ty.args[0]
            kc = self.fresh('key', kty)
            present = self.b(self.contains(mapv, kc, s))
            kind = it.kind if isinstance(it, IterV) else 'keys'
            if kind == 'keys':
                elem = kc
            else:
                o = opt_sort(to_sort(mapv.ty.args[1], self.reg))
                val = V(o.val(z3.Select(mapv.t, kc.t)), mapv.ty.args[1])
                elem = val if kind == 'values' else (kc, val)
            sub = st.fork()
            sub.stack.append(Frame({}, len(sub.stack) - 1, sub.frame.globs, sub.frame.qualname))
            sub.bound = st.bound + [kc.t]
            outs = []
            for s1, c in self.assign(target, elem, sub):
                for s2, vs in self.ev_list(list(ifs) + [elt], s1):
                    outs.append((s2, vs))
            if len(outs) != 1 or isinstance(outs[0][1], Raised):
                raise Outside("quantifier body must be a pure expression")
            s2, vs = outs[0]
            t = self.b(self.truth(vs[-1], s2))
            rng = present
            if ifs:
                rng = z3.And(rng, self.b(self._and([self.b(self.truth(x, s2)) for x in vs[:-1]])))
            q = z3.ForAll([kc.t], z3.Implies(rng, t)) if fname == 'all' else z3.Exists([kc.t], z3.And(rng, t))
            yield st, V(q, BOOL)
            return
        n, f = self.iter_view(it, s)
        if is_concrete(n) and n <= 16:
            (s2, acc), = list(self._comp_unrolled(comp, s, n, f, 'raw'))
            yield from self._reduce_concrete(fname, acc, s2)
            return
        i = self.fresh_term('q', z3.IntSort())
        nt = n if not is_concrete(n) else z3.IntVal(n)
        sub = st.fork()
        sub.stack.append(Frame({}, len(sub.stack) - 1, sub.frame.globs, sub.frame.qualname))
        sub.bound = st.bound + [i]
        outs = []
        for s1, c in self.assign(target, f(V(i, INT)), sub):
            for s2, vs in self.ev_list(list(ifs) + [elt], s1):
                outs.append((s2, vs))
        if len(outs) != 1 or isinstance(outs[0][1], Raised):
            raise Outside("quantifier body must be a pure expression")
        s2, vs = outs[0]
        t = self.b(self.truth(vs[-1], s2))
        rng = z3.And(i >= 0, i < nt)
        if ifs:
            ct = self._and([self.b(self.truth(x, s2)) for x in vs[:-1]])
            rng = z3.And(rng, self.b(ct))
        split = self.split_appended(fname, i, nt, rng, t) if not ifs else None
        if split is not None:
            yield st, V(split, BOOL)
            return
        q = z3.ForAll([i], z3.Implies(rng, t)) if fname == 'all' else z3.Exists([i], z3.And(rng, t))
        yield st, V(q, BOOL)

    def split_appended(self, fname, i, nt, rng, body):
        """a quantifier over the positions of a list that is syntactically `base + [x]` (the list right after an append),
        whose body reads the list only at the quantified position:
            all(P(L[j]) for j < len(L))   <=>   all(P(base[j]) for j < len(base))  and  P(x)
        (an equivalence of sequence theory: L[j] = base[j] below len(base), L[len(base)] = x) - stated in the split form
        so that neither a hypothesis nor a goal needs the solver to find the case distinction"""
        found = None
        todo = [body]
        seen = set()
        while todo:
            e = todo.pop()
            if e.get_id() in seen:
                continue
            seen.add(e.get_id())
            if z3.is_app_of(e, z3.Z3_OP_SEQ_NTH) and e.arg(1).eq(i):
                c = e.arg(0)
                if z3.is_app_of(c, z3.Z3_OP_SEQ_CONCAT) and (z3.is_app_of(c.arg(c.num_args() - 1), z3.Z3_OP_SEQ_UNIT)
                                                             or z3.is_app_of(c.arg(0), z3.Z3_OP_SEQ_UNIT)):
                    if found is not None and not found[0].eq(c):
                        return None
                    found = (c, e)
            if z3.is_app(e):
                todo.extend(e.children())
            elif z3.is_quantifier(e):
                todo.append(e.body())
        if found is None:
            return None
        c, nth = found
        if not z3.is_true(z3.simplify(nt == z3.Length(c))):
            return None
        if not z3.is_app_of(c.arg(c.num_args() - 1), z3.Z3_OP_SEQ_UNIT):
            # `[x] + base` (insert at the front): position 0 is x, position j >= 1 is base[j - 1]
            rest = [c.arg(k) for k in range(1, c.num_args())]
            base = rest[0] if len(rest) == 1 else z3.Concat(*rest)
            x = c.arg(0).arg(0)
            lb = z3.Length(base)
            body1 = z3.substitute(body, (nth, base[i - 1]))
            body0 = z3.substitute(z3.substitute(body, (nth, x)), (i, z3.IntVal(0)))
            r1 = z3.And(i >= 1, i < lb + 1)
            if fname == 'all':
                return z3.And(body0, z3.ForAll([i], z3.Implies(r1, body1)))
            return z3.Or(body0, z3.Exists([i], z3.And(r1, body1)))
        rest = [c.arg(k) for k in range(c.num_args() - 1)]
        base = rest[0] if len(rest) == 1 else z3.Concat(*rest)
        x = c.arg(c.num_args() - 1).arg(0)
        lb = z3.Length(base)
        body1 = z3.substitute(body, (nth, base[i]))
        body2 = z3.substitute(z3.substitute(body, (nth, x)), (i, lb))
        # (other reads of the list in the body are untouched: only L[i] is rewritten, under what is known about i)
        r1 = z3.And(i >= 0, i < lb)
        if fname == 'all':
            return z3.And(z3.ForAll([i], z3.Implies(r1, body1)), body2)
        return z3.Or(z3.Exists([i], z3.And(r1, body1)), body2)


class AnyException(Exception):
    """stands for 'some exception of an unknown class' raised by an un-contracted or external callee"""
