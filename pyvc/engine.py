"""pyvc — symbolic executor over the Python ast of the real functions in /repo.

Reads the function's own statements (inspect.getsource on the module imported from the working tree), executes them
path by path over z3 terms, cuts loops at contract-supplied invariants, replaces calls by callee contracts (or inlines
small un-contracted repo functions), and emits proof obligations.  See DESIGN.md section 2.
"""
from __future__ import annotations
import ast
import builtins
import inspect
import itertools
import sys
import textwrap
import time
import types as pytypes

import z3

from .types import (T, INT, BOOL, BYTES, STR, NONE, ANY, OPT, LIST, SET, MAP, TUPLE, CLS, Outside, Registry, to_sort,
                    opt_sort, tuple_sort, from_annotation, BYTES_SORT, BV8)


# ---------------------------------------------------------------------------------------------------------- values

class V:
    """immutable symbolic value: z3 term + type descriptor"""
    __slots__ = ('t', 'ty')

    def __init__(self, t, ty):
        self.t = t
        self.ty = ty

    def __repr__(self):
        return "V(%s: %r)" % (self.t, self.ty)


class Ref:
    """reference to a mutable object on the symbolic heap"""
    __slots__ = ('loc',)

    def __init__(self, loc):
        self.loc = loc

    def __repr__(self):
        return "Ref(%d)" % self.loc


class HeapObj:
    """kind: 'list' | 'set' | 'dict' -> val is a V ; 'obj' -> fields dict, cls python class ; 'stream' -> fields"""
    __slots__ = ('kind', 'val', 'fields', 'cls', 'frozen', 'field_types')

    def __init__(self, kind, val=None, fields=None, cls=None):
        self.kind = kind
        self.val = val
        self.fields = fields
        self.cls = cls
        self.frozen = False
        self.field_types = None     # declared field types (from the StateShape), for havoc of fields holding constants

    def copy(self):
        h = HeapObj(self.kind, self.val, dict(self.fields) if self.fields is not None else None, self.cls)
        h.frozen = self.frozen
        h.field_types = self.field_types
        return h


class ExcVal:
    """a raised exception: python class (real class from the imported modules / builtins) and message values"""

    def __init__(self, cls, args=(), origin=None):
        self.cls = cls
        self.args = args
        self.origin = origin

    def __repr__(self):
        return "ExcVal(%s)" % self.cls.__name__


class Raised:
    __slots__ = ('exc',)

    def __init__(self, exc):
        self.exc = exc


class RangeV:
    """range(lo, hi, step)"""
    __slots__ = ('lo', 'hi', 'step')

    def __init__(self, lo, hi, step=1):
        self.lo, self.hi, self.step = lo, hi, step


class IterV:
    """enumerate(x) / reversed(x) / dict views: kind in 'enumerate' 'reversed' 'keys' 'values' 'items'"""
    __slots__ = ('kind', 'base')

    def __init__(self, kind, base):
        self.kind, self.base = kind, base


class EmptyMap:
    """immutables.Map() / {} before its key and value types are known"""
    def __repr__(self):
        return "EmptyMap"


EMPTY_MAP = EmptyMap()


class Closure:
    def __init__(self, node, frame_index, globs, qualname):
        self.node = node
        self.frame_index = frame_index
        self.globs = globs
        self.qualname = qualname


class BoundMethod:
    def __init__(self, self_val, func, cls=None):
        self.self_val = self_val
        self.func = func
        self.cls = cls


class BuiltinMethod:
    def __init__(self, self_val, name):
        self.self_val = self_val
        self.name = name


class LocalClass:
    """a class statement inside a function body (CoinState.at_head's AtHead)"""

    def __init__(self, node, frame_index, globs):
        self.node = node
        self.frame_index = frame_index
        self.globs = globs
        self.members = {}
        for s in node.body:
            if isinstance(s, ast.FunctionDef):
                is_prop = any(isinstance(d, ast.Name) and d.id == 'property' for d in s.decorator_list)
                self.members[s.name] = (s, is_prop)


class GhostNS:
    """namespace object: G.<name>(...) in contract text"""

    def __init__(self, funcs):
        self.funcs = funcs


class Frame:
    __slots__ = ('vars', 'parent', 'globs', 'qualname', 'captured')

    def __init__(self, vars, parent, globs, qualname, captured=None):
        self.vars = vars
        self.parent = parent        # index of the enclosing frame for *spec* sub-frames only (same activation)
        self.globs = globs
        self.qualname = qualname
        self.captured = captured    # variables of the defining scope of a closure (snapshot at definition)


class State:
    def __init__(self):
        self.stack = []
        self.heap = {}
        self.pc = []
        self.trace = []
        self.spec = False
        self.old = None
        self.writes = 0
        self.depth = 0
        self.bound = []     # bound variables of enclosing spec quantifiers
        self.dec = []       # the subset of pc that are *decisions* (branch conditions, normal/raise predicates of callees)

    def fork(self):
        s = State()
        s.stack = [Frame(dict(f.vars), f.parent, f.globs, f.qualname, f.captured) for f in self.stack]
        s.heap = {k: h.copy() for k, h in self.heap.items()}
        s.pc = list(self.pc)
        s.trace = list(self.trace)
        s.spec = self.spec
        s.old = self.old
        s.writes = self.writes
        s.depth = self.depth
        s.bound = list(self.bound)
        s.dec = list(self.dec)
        s.locks_held = getattr(self, 'locks_held', 0)
        return s

    def assume(self, c, decision=False):
        if c is True or (z3.is_true(c) if isinstance(c, z3.ExprRef) else False):
            return self
        self.pc.append(c)
        if decision:
            self.dec.append(c)
        return self

    @property
    def frame(self):
        return self.stack[-1]


# ---------------------------------------------------------------------------------------------------------- helpers

def is_concrete(v):
    return isinstance(v, (int, bool, bytes, str, type(None))) and not isinstance(v, V)


def bytes_term(b: bytes):
    if len(b) == 0:
        return z3.Empty(BYTES_SORT)
    if len(b) > 64 and len(set(b)) == 1:
        pass
    units = [z3.Unit(z3.BitVecVal(x, 8)) for x in b]
    if len(units) == 1:
        return units[0]
    return z3.Concat(*units)


class Obligation:
    def __init__(self, name, hyps, goal, where, kind='proof'):
        self.name = name
        self.hyps = hyps
        self.goal = goal
        self.where = where
        self.kind = kind
        self.terms = ()         # extra instantiation terms suggested by a lemma script
        self.status = None      # 'discharged' | 'refuted' | 'unknown'
        self.backend = None
        self.seconds = 0.0
        self.model = None
        self.detail = ''


class Engine:
    """One verification run: registry of value classes, contracts, ghost functions, obligations."""

    INLINE_DEPTH = 12

    def __init__(self, registry: Registry, contracts, ghosts=None, timeout_ms=20000, seed=0):
        self.reg = registry
        self.contracts = contracts          # qualname -> Contract
        self.force_inline_all = False       # lemma mode: execute the bodies of the listed callees instead of their contracts
        self.inline_for_rt1 = set()
        self.elem_defs = {}                 # id of a comprehension's sequence term -> (term, index const, element term, type)
        self.ghosts = ghosts or {}
        self.obligations = []
        self.fresh_counter = itertools.count()
        self.loc_counter = itertools.count(1)
        self.timeout_ms = timeout_ms
        self.seed = seed
        self.ufs = {}
        self.axioms = []                    # global ground/quantified axioms (ghost definitions)
        self.assumptions_used = set()
        self.solver_seconds = 0.0
        self.solver_calls = 0
        self.src_cache = {}
        self.sum_cache = {}
        self.stateful = {}                  # python class -> True for heap-allocated (mutable) classes
        self.externals = {}                 # python callable / qualname -> external stub
        self.current = None                 # qualname being verified
        self.path_count = 0
        self.inlined = set()
        self.func_axioms = []               # axioms generated for UF summaries during this function
        self.int_bound_cache = {}
        self._q_cache = {}
        self._abs_cache = {}
        self._atom_keep = {}

    # ------------------------------------------------------------------------------------------------ terms

    def fresh(self, name, ty, st=None):
        return V(self.fresh_term(name, to_sort(ty, self.reg), st), ty)

    def fresh_term(self, name, sort, st=None):
        """fresh constant; under enclosing bound variables (comprehension / quantifier index) a fresh *function* of
        them, so that a havoced value may differ from one element to the next"""
        n = "%s!%d" % (name, next(self.fresh_counter))
        if st is not None and st.bound:
            f = z3.Function(n, *([b.sort() for b in st.bound] + [sort]))
            return f(*st.bound)
        return z3.Const(n, sort)

    def uf(self, name, *sorts):
        """uninterpreted function, one per (name, argument sorts)"""
        from .types import sort_name
        key = name + '/' + ','.join(sort_name(s) for s in sorts[:-1])
        if key not in self.ufs:
            zname = name if not any(k.startswith(name + '/') for k in self.ufs) else key
            self.ufs[key] = z3.Function(zname, *sorts)
        return self.ufs[key]

    def ty_of(self, v):
        if isinstance(v, V):
            return v.ty
        if isinstance(v, bool):
            return BOOL
        if isinstance(v, int):
            return INT
        if isinstance(v, bytes):
            return BYTES
        if isinstance(v, str):
            return STR
        if v is None:
            return NONE
        if isinstance(v, tuple):
            return TUPLE(*[self.ty_of(x) for x in v])
        raise Outside("no type for %r" % (v,))

    def term(self, v, ty=None, st=None):
        """z3 term of value v, coerced to type ty when given (None -> opt none, T -> opt some, Ref -> snapshot)"""
        if isinstance(v, Ref):
            if st is None:
                raise Outside("reference used where a value is needed")
            h = st.heap[v.loc]
            if h.kind in ('list', 'set', 'dict'):
                return self.term(h.val, ty, st)
            raise Outside("mutable object used as a value")
        if isinstance(v, EmptyMap):
            if ty is not None and ty.kind == 'map':
                return z3.K(to_sort(ty.args[0], self.reg), opt_sort(to_sort(ty.args[1], self.reg)).none)
            if ty is not None and ty.kind == 'opt' and ty.args[0].kind == 'map':
                inner = self.term(v, ty.args[0], st)
                return opt_sort(inner.sort()).some(inner)
            raise Outside("empty map of unknown type used as a value")
        if isinstance(v, V):
            if ty is None or ty == v.ty or ty.kind == 'any':
                return v.t
            if ty.kind == 'opt' and v.ty.kind != 'opt':
                inner = self.term(v, ty.args[0], st)
                return opt_sort(inner.sort()).some(inner)
            if ty.kind == 'opt' and v.ty.kind == 'opt':
                if to_sort(ty, self.reg) == v.t.sort():
                    return v.t
            if ty.kind == 'cls' and v.ty.kind == 'cls' and self.reg.root_of(ty.args[0]) == self.reg.root_of(v.ty.args[0]):
                return v.t
            if to_sort(ty, self.reg) == v.t.sort():
                return v.t
            if v.ty.kind == 'opt' and ty.kind != 'opt' and to_sort(v.ty.args[0], self.reg) == to_sort(ty, self.reg):
                # Optional value where a plain one is required: its content (call sites establish `is not None`, see
                # Verifier.apply_contract; in specifications the content of None is unspecified)
                return opt_sort(to_sort(ty, self.reg)).val(v.t)
            if ty.kind == 'int' and v.ty.kind == 'bool':
                return z3.If(v.t, z3.IntVal(1), z3.IntVal(0))
            raise Outside("cannot coerce %r to %r" % (v, ty))
        if isinstance(v, bool):
            if ty is not None and ty.kind == 'int':
                return z3.IntVal(int(v))
            t = z3.BoolVal(v)
        elif isinstance(v, int):
            t = z3.IntVal(v)
        elif isinstance(v, bytes):
            t = bytes_term(v)
        elif isinstance(v, str):
            t = z3.StringVal(v)
        elif v is None:
            if ty is not None and ty.kind == 'opt':
                return opt_sort(to_sort(ty.args[0], self.reg)).none
            if ty is None or ty.kind == 'none':
                return opt_sort(z3.IntSort()).none
            raise Outside("None where %r expected" % (ty,))
        elif isinstance(v, tuple):
            tys = ty.args if ty is not None and ty.kind == 'tuple' else [None] * len(v)
            ts = [self.term(x, t_, st) for x, t_ in zip(v, tys)]
            return tuple_sort([x.sort() for x in ts]).mk(*ts)
        elif isinstance(v, list):
            ety = ty.args[0] if ty is not None and ty.kind == 'list' else self.ty_of(v[0])
            es = to_sort(ety, self.reg)
            if not v:
                return z3.Empty(z3.SeqSort(es))
            units = [z3.Unit(self.term(x, ety, st)) for x in v]
            return units[0] if len(units) == 1 else z3.Concat(*units)
        else:
            raise Outside("cannot make a term of %r" % (v,))
        if ty is not None and ty.kind == 'opt':
            return opt_sort(t.sort()).some(t)
        return t

    def lift(self, v, st=None):
        if isinstance(v, V):
            return v
        if isinstance(v, Ref):
            h = st.heap[v.loc]
            if h.kind in ('list', 'set', 'dict'):
                return h.val
            raise Outside("mutable object used as a value")
        ty = self.ty_of(v)
        return V(self.term(v, ty, st), ty)

    # ------------------------------------------------------------------------------------------------ sequence terms

    def mk_concat(self, *ts):
        """concatenation in a canonical shape: flattened, without empty operands"""
        flat = []
        for t in ts:
            if z3.is_app(t) and t.decl().kind() == z3.Z3_OP_SEQ_CONCAT:
                flat.extend(self._concat_args(t))
            elif z3.is_app(t) and t.decl().kind() == z3.Z3_OP_SEQ_EMPTY:
                continue
            else:
                flat.append(t)
        if not flat:
            return z3.Empty(ts[0].sort())
        # adjacent slices of the same sequence that touch are one slice; a slice that is everything is the sequence
        merged = []
        for t in flat:
            if merged and self._is_extract(t) and self._is_extract(merged[-1]) and t.arg(0).eq(merged[-1].arg(0)) and \
                    z3.simplify(merged[-1].arg(1) + merged[-1].arg(2) - t.arg(1)).eq(z3.IntVal(0)):
                p_ = merged.pop()
                merged.append(z3.SubSeq(p_.arg(0), p_.arg(1), z3.simplify(p_.arg(2) + t.arg(2))))
            else:
                merged.append(t)
        flat = []
        for t in merged:
            if self._is_extract(t) and z3.simplify(t.arg(1)).eq(z3.IntVal(0)) and \
                    z3.simplify(t.arg(2) - self.norm_len(t.arg(0))).eq(z3.IntVal(0)):
                flat.extend(self._concat_args(t.arg(0)) if self._is_concat(t.arg(0)) else [t.arg(0)])
            else:
                flat.append(t)
        if len(flat) == 1:
            return flat[0]
        return z3.Concat(*flat)

    @staticmethod
    def _is_extract(t):
        return z3.is_app(t) and t.decl().kind() == z3.Z3_OP_SEQ_EXTRACT

    @staticmethod
    def _is_concat(t):
        return z3.is_app(t) and t.decl().kind() == z3.Z3_OP_SEQ_CONCAT

    def _concat_args(self, t):
        out = []
        for c in t.children():
            if z3.is_app(c) and c.decl().kind() == z3.Z3_OP_SEQ_CONCAT:
                out.extend(self._concat_args(c))
            elif z3.is_app(c) and c.decl().kind() == z3.Z3_OP_SEQ_EMPTY:
                continue
            else:
                out.append(c)
        return out

    @staticmethod
    def _known_len(t):
        if z3.is_app(t):
            k = t.decl().kind()
            if k == z3.Z3_OP_SEQ_UNIT:
                return 1
            if k == z3.Z3_OP_UNINTERPRETED and t.decl().name().startswith('to_be') and t.decl().name()[5:].isdigit():
                return int(t.decl().name()[5:])
        return None

    def norm_len(self, t, st=None):
        """len(t) as arithmetic over the lengths of the atoms of t, where that is certain"""
        if z3.is_app(t):
            k = t.decl().kind()
            if k == z3.Z3_OP_SEQ_CONCAT:
                return z3.simplify(sum((self.norm_len(c, st) for c in t.children()), z3.IntVal(0)))
            if k == z3.Z3_OP_SEQ_UNIT:
                return z3.IntVal(1)
            if k == z3.Z3_OP_SEQ_EMPTY:
                return z3.IntVal(0)
            kl = self._known_len(t)
            if kl is not None:
                return z3.IntVal(kl)
            if k == z3.Z3_OP_SEQ_EXTRACT and st is not None:
                b0, o0, l0 = t.arg(0), t.arg(1), t.arg(2)
                if self.entails(st, z3.And(o0 >= 0, l0 >= 0, o0 + l0 <= self.norm_len(b0, st))):
                    return l0
        return z3.Length(t)

    def mk_extract(self, base, off, ln, st=None):
        """base[off : off+ln] in a canonical shape: a slice of a slice is a slice of the underlying sequence when the inner
        range is provably inside the outer one (checked against the path condition)"""
        off = z3.simplify(off) if isinstance(off, z3.ExprRef) else z3.IntVal(off)
        ln = z3.simplify(ln) if isinstance(ln, z3.ExprRef) else z3.IntVal(ln)
        if z3.is_app(base) and base.decl().kind() == z3.Z3_OP_SEQ_CONCAT:
            # skip leading operands of known length that lie entirely before the slice
            ops = self._concat_args(base)
            skipped = 0
            while len(ops) > 1:
                k = self._known_len(ops[0])
                if k is None:
                    # an operand of symbolic length that provably lies before the slice
                    lk = z3.Length(ops[0])
                    if st is not None and self.entails(st, off >= lk):
                        off = z3.simplify(off - lk)
                        ops = ops[1:]
                        continue
                    break
                new_off = z3.simplify(off - k)
                ok = (z3.is_int_value(new_off) and new_off.as_long() >= 0) or \
                     (st is not None and not z3.is_int_value(new_off) and self.entails(st, off >= k))
                if not ok:
                    break
                off = new_off
                ops = ops[1:]
                skipped += k if isinstance(k, int) else 0
            # a slice that consists exactly of leading operands of known length is their concatenation
            if z3.is_int_value(off) and off.as_long() == 0 and z3.is_int_value(ln):
                want, got, take = ln.as_long(), 0, []
                for o_ in ops:
                    k = self._known_len(o_)
                    if k is None and st is not None and want - got > 0 and self.entails(st, z3.Length(o_) == want - got):
                        k = want - got          # an operand whose length is known from the path condition
                    if k is None or got + k > want:
                        break
                    take.append(o_)
                    got += k
                    if got == want:
                        return take[0] if len(take) == 1 else z3.Concat(*take)
            # a slice inside the first operand is a slice of it; a slice from inside the first operand to the very end is
            # the rest of the first operand followed by the other operands
            if st is not None and len(ops) > 1:
                l0 = self.norm_len(ops[0], st)
                if self.entails(st, z3.And(off >= 0, ln >= 0, off + ln <= l0)):
                    return self.mk_extract(ops[0], off, ln, st)
                total = z3.simplify(sum((self.norm_len(o_, st) for o_ in ops), z3.IntVal(0)))
                if z3.simplify(off + ln - total).eq(z3.IntVal(0)) and self.entails(st, z3.And(off >= 0, off <= l0)):
                    head = self.mk_extract(ops[0], off, z3.simplify(l0 - off), st)
                    return self.mk_concat(head, *ops[1:])
            base = ops[0] if len(ops) == 1 else z3.Concat(*ops)
        if st is not None and z3.is_app(base) and base.decl().kind() == z3.Z3_OP_SEQ_EXTRACT:
            b0, o0, l0 = base.arg(0), base.arg(1), base.arg(2)
            if self.entails(st, z3.And(off >= 0, ln >= 0, off + ln <= l0, o0 >= 0)):
                return z3.SubSeq(b0, z3.simplify(o0 + off), ln)
        return z3.SubSeq(base, off, ln)

    # ------------------------------------------------------------------------------------------------ solver

    def _solver(self, timeout_ms=None):
        s = z3.Solver()
        t = int(timeout_ms or self.timeout_ms)
        # every budget is a deterministic resource limit (about what z3 does in `t` ms on an idle core); the wall clock
        # is only a distant backstop.  A verdict, and every decision taken during symbolic execution, is then the same on
        # an idle and on a busy machine.
        s.set('rlimit', t * 600)
        s.set('timeout', max(8 * t, 30000))
        s.set('random_seed', self.seed)
        return s

    def check_sat(self, formulas, timeout_ms=2000):
        s = self._solver(timeout_ms)
        for a in self.axioms + self.func_axioms:
            s.add(a)
        for f in formulas:
            s.add(f)
        t0 = time.time()
        r = s.check()
        self.solver_seconds += time.time() - t0
        self.solver_calls += 1
        return r, s

    def hard_for_pruning(self, e):
        """quantified formulas are left out of pruning / entailment pre-checks (dropping hypotheses is always sound
        there); everything else is abstracted by abstract_seq"""
        from .inst import _contains_quantifier
        return _contains_quantifier(e)

    def has_quantifier(self, e):
        return self.hard_for_pruning(e)

    def ground(self, formulas):
        """the quantifier-free part of a list of hypotheses (dropping hypotheses is always sound for pruning);
        conjunctions are split first so that one hard conjunct does not take its siblings with it"""
        out = []
        todo = [f for f in formulas if isinstance(f, z3.ExprRef)]
        while todo:
            f = todo.pop()
            if z3.is_and(f):
                todo.extend(f.children())
            elif not self.has_quantifier(f):
                out.append(f)
        return out

    def abstract_seq(self, e, side):
        """arithmetic/propositional abstraction of a quantifier-free formula for pruning and entailment pre-checks:
        seq.len becomes arithmetic over abstract lengths (len(a ++ b) = len a + len b, len of an in-range slice = its
        length), seq.nth an uninterpreted function, and every other sequence-building term an opaque constant (the same
        term - the same constant).  Every model of e yields one of the abstraction, so a refutation of the abstraction is
        a refutation of e."""
        k = e.get_id()
        c = self._abs_cache.get(k)
        if c is not None:
            side.extend(c[1])
            return c[0]
        myside = []
        memo = {}
        CONSTR = (z3.Z3_OP_SEQ_CONCAT, z3.Z3_OP_SEQ_UNIT, z3.Z3_OP_SEQ_EXTRACT, z3.Z3_OP_SEQ_AT, z3.Z3_OP_SEQ_REPLACE,
                  z3.Z3_OP_SEQ_MAP, z3.Z3_OP_SEQ_MAPI, z3.Z3_OP_SEQ_REPLACE_ALL)

        def atom(t):
            """opaque constant standing for a sequence-building term"""
            key = 'seq!atom!' + str(abs(hash(t.sexpr())))
            self._atom_keep.setdefault(key, t)
            return z3.Const(key, t.sort())

        def abs_len(t):
            if z3.is_app(t):
                kk = t.decl().kind()
                if kk == z3.Z3_OP_SEQ_CONCAT:
                    return sum((abs_len(ch) for ch in t.children()), z3.IntVal(0))
                if kk == z3.Z3_OP_SEQ_UNIT:
                    return z3.IntVal(1)
                if kk == z3.Z3_OP_SEQ_EMPTY:
                    return z3.IntVal(0)
            r_ = z3.Function('len!abs', t.sort(), z3.IntSort())(go(t))
            myside.append(r_ >= 0)
            if z3.is_app(t) and t.decl().kind() == z3.Z3_OP_SEQ_EXTRACT:
                lb = abs_len(t.arg(0))
                o2, l2 = go(t.arg(1)), go(t.arg(2))
                myside.append(z3.Implies(z3.And(o2 >= 0, l2 >= 0, o2 + l2 <= lb), r_ == l2))
            return r_

        def go(x):
            i = x.get_id()
            if i in memo:
                return memo[i][0]
            if not z3.is_app(x) or x.num_args() == 0:
                r = x
            else:
                dk = x.decl().kind()
                if dk == z3.Z3_OP_SEQ_LENGTH:
                    r = abs_len(x.arg(0))
                elif dk == z3.Z3_OP_SEQ_NTH:
                    a0, a1 = go(x.arg(0)), go(x.arg(1))
                    r = z3.Function('nth!abs', a0.sort(), z3.IntSort(), x.sort())(a0, a1)
                elif dk in CONSTR:
                    r = atom(x)
                else:
                    kids = [go(ch) for ch in x.children()]
                    if all(a_.eq(b_) for a_, b_ in zip(kids, x.children())):
                        r = x
                    else:
                        r = z3.substitute(x, *[(o_, n_) for o_, n_ in zip(x.children(), kids) if not o_.eq(n_)])
            memo[i] = (r, x)
            return r
        r = go(e)
        self._abs_cache[k] = (r, myside, e)
        side.extend(myside)
        return r

    def check_ground(self, formulas, timeout_ms, keep=()):
        # the budget is a deterministic resource limit (about what z3 does in `timeout_ms` on an idle core); the wall-clock
        # timeout is only a distant backstop, so that path exploration does not depend on how busy the machine is
        s = self._solver(max(5000, 25 * timeout_ms))
        s.set('rlimit', int(timeout_ms) * 1500)
        side = []
        for a in self.ground(self.axioms + self.func_axioms + list(formulas)) + [k for k in keep if not self._has_q(k)]:
            s.add(self.abstract_seq(a, side))
        for a in side:
            s.add(a)
        t0 = time.time()
        r = s.check()
        self.solver_seconds += time.time() - t0
        self.solver_calls += 1
        return r

    def feasible(self, st):
        """False only if the path condition is certainly contradictory (quantifier-free part, short budget)"""
        return self.check_ground(st.pc, 120) != z3.unsat

    def _has_q(self, e):
        from .inst import _contains_quantifier
        return _contains_quantifier(e)

    def entails(self, st, goal, timeout_ms=600):
        """True only if the quantifier-free part of the path condition certainly implies goal (the goal itself is kept
        even if it mentions sequence constructions)"""
        return self.check_ground(list(st.pc), timeout_ms, keep=[z3.Not(goal)]) == z3.unsat

    def oblige(self, st, goal, name, where='', terms=()):
        """record a proof obligation: pc |= goal"""
        if goal is True:
            goal = z3.BoolVal(True)
        ob = Obligation(name, list(self.axioms) + list(self.func_axioms) + list(st.pc), goal,
                        where or "; ".join(st.trace[-6:]))
        ob.terms = tuple(t.t if hasattr(t, 't') else t for t in terms)
        self.obligations.append(ob)
        return ob

    # ------------------------------------------------------------------------------------------------ source access

    def func_ast(self, func):
        """(FunctionDef node, source text) of a real python function"""
        key = getattr(func, '__qualname__', None), getattr(func, '__module__', None)
        if key in self.src_cache:
            return self.src_cache[key]
        try:
            src = inspect.getsource(func)
        except (OSError, TypeError) as e:
            raise Outside("no source for %r: %s" % (func, e))
        node = ast.parse(textwrap.dedent(src)).body[0]
        if not isinstance(node, (ast.FunctionDef,)):
            raise Outside("not a plain function: %r" % (func,))
        try:
            base_line = inspect.getsourcelines(func)[1] - 1
        except OSError:
            base_line = 0
        ast.increment_lineno(node, base_line)
        self.src_cache[key] = (node, src)
        return node, src

    @staticmethod
    def qualname_of(func):
        return "%s.%s" % (func.__module__, func.__qualname__)
