"""./check driver: verifies every function under contract for one property, compares with the committed baseline of
obligation names, replays counterexamples, writes the evidence file, prints VIOLATION / KNOWN-FINDING lines."""
from __future__ import annotations
import argparse
import atexit
import json
import multiprocessing as mp
import os
import re
import shutil
import sys
import tempfile
import time
import traceback

HOME = os.environ.get('VERIF_HOME', os.path.dirname(os.path.dirname(os.path.abspath(__file__))))
REPO = os.environ.get('VERIF_REPO', '/repo')


def _scratch():
    d = tempfile.mkdtemp(prefix='skverif-')
    atexit.register(lambda: shutil.rmtree(d, ignore_errors=True))
    os.chdir(d)
    return d


# ------------------------------------------------------------------------------------------------------- workers

def _worker_verify(job):
    """verify one function (or lemma) in a fresh engine; returns plain data"""
    kind, name, seed, timeout_ms = job[:4]
    part, nparts = (job[4], job[5]) if len(job) > 4 else (0, 1)
    t0 = time.time()
    import signal

    def _alarm(signum, frame):
        raise TimeoutError("worker watchdog: %s did not finish" % name)
    signal.signal(signal.SIGALRM, _alarm)
    signal.alarm(int(os.environ.get('VERIF_WORKER_LIMIT_S', '1500')))
    out = {'kind': kind, 'name': name, 'obligations': [], 'outside': None, 'crash': None, 'info': None,
           'assumptions': [], 'trusted_used': [], 'inlined': [], 'vacuity': [], 'used': []}
    try:
        import z3
        # a run-away query ends as an error of this worker (z3's own accounting; an address-space rlimit makes z3 give up
        # on ordinary queries and is not used).  The parent additionally watches the resident size of its workers.
        z3.set_param('memory_max_size', int(float(os.environ.get('VERIF_Z3_MEM_MB', '6000'))))
        from pyvc.types import Outside
        import contracts
        v = contracts.make_verifier(seed=seed, timeout_ms=timeout_ms)
        try:
            hp = os.path.join(HOME, 'baseline', 'hints.json')
            v.stage_hints = json.load(open(hp)).get(os.environ.get('VERIF_PROP', ''), {}) if os.path.exists(hp) else {}
        except Exception:
            v.stage_hints = {}
        try:
            if kind == 'function':
                out['info'] = v.verify_function(name)
            else:
                fn = [f for (n, _p, f) in v.cset.lemmas if n == name][0]
                v.current = 'lemma:' + name
                v.func_axioms = []
                v._ax_seen = set()
                fn(v)
                out['info'] = {'qualname': 'lemma:' + name}
        except Outside as e:
            out['outside'] = str(e)
        if nparts > 1:
            v.obligations = [ob for k, ob in enumerate(v.obligations) if k % nparts == part]
        v.discharge_all()
        if os.environ.get('VERIF_TIER_EFFECTIVE') == 'thorough':
            out['second_opinion'] = v.second_opinion()
        for ob in v.obligations:
            out['obligations'].append({
                'name': ob.name, 'status': ob.status, 'backend': ob.backend, 'seconds': round(ob.seconds, 4),
                'where': ob.where, 'detail': ob.detail,
                'model': (contracts.describe_model(v, ob) if ob.model is not None else None),
                'goal': str(ob.goal)[:400],
            })
        out['assumptions'] = sorted(v.assumptions_used)
        out['trusted_used'] = sorted(q for q in v.used_contracts if v.contracts[q].trusted)
        out['used'] = sorted(q for q in v.used_contracts if not v.contracts[q].trusted)
        out['inlined'] = sorted(v.inlined)
        out['vacuity'] = [(n, str(r)) for n, r in v.vacuity]
        out['solver_seconds'] = round(v.solver_seconds, 3)
    except Exception:
        out['crash'] = traceback.format_exc()
    out['wall'] = round(time.time() - t0, 3)
    return out


def _lost(job, why):
    return {'kind': job[0], 'name': job[1], 'obligations': [], 'outside': None, 'crash': why, 'info': None,
            'assumptions': [], 'trusted_used': [], 'inlined': [], 'vacuity': [], 'used': [], 'wall': 0.0}


def _run_jobs(jobs, nworkers, ctx):
    """run the verification jobs in worker processes; a worker that dies (e.g. killed for its memory use) must neither hang
    the check nor take the other jobs with it: the jobs that were lost are run again, each in a process of its own, and the
    one that kills its process is reported as a checker problem (undecided), never as a verdict"""
    from concurrent.futures import ProcessPoolExecutor, as_completed
    from concurrent.futures.process import BrokenProcessPool
    import threading
    results = {}
    pending = list(enumerate(jobs))
    limit_kb = int(float(os.environ.get('VERIF_WORKER_RSS_GB', '10')) * 2 ** 20)
    stop = threading.Event()

    def watch(ex_):
        # a worker whose resident memory runs away is killed (its job is then reported as undecided) before the kernel's
        # out-of-memory killer picks a victim of its own choosing
        while not stop.wait(2.0):
            for pid in list(getattr(ex_, '_processes', {}) or {}):
                try:
                    with open('/proc/%d/statm' % pid) as fh:
                        rss_kb = int(fh.read().split()[1]) * (os.sysconf('SC_PAGE_SIZE') // 1024)
                    if rss_kb > limit_kb:
                        os.kill(pid, 9)
                except Exception:
                    pass
    try:
        with ProcessPoolExecutor(max_workers=min(nworkers, len(pending)), mp_context=ctx) as ex:
            threading.Thread(target=watch, args=(ex,), daemon=True).start()
            futs = {ex.submit(_worker_verify, j): k for k, j in pending}
            for f in as_completed(futs):
                try:
                    results[futs[f]] = f.result()
                except BrokenProcessPool:
                    pass
                except Exception as e:
                    results[futs[f]] = _lost(jobs[futs[f]], "worker failed: %r" % (e,))
    except BrokenProcessPool:
        pass
    for k, j in pending:
        if k in results:
            continue
        try:
            with ProcessPoolExecutor(max_workers=1, mp_context=ctx) as ex:
                threading.Thread(target=watch, args=(ex,), daemon=True).start()
                results[k] = ex.submit(_worker_verify, j).result()
        except BrokenProcessPool:
            results[k] = _lost(j, "worker process died while verifying %s (killed, e.g. for its memory use); undecided" % j[1])
        except Exception as e:
            results[k] = _lost(j, "worker failed: %r" % (e,))
    stop.set()
    return [results[k] for k, _j in pending]


def _worker_native(job):
    modname, tier, seed = job
    import importlib
    import contextlib
    import io
    buf = io.StringIO()
    with contextlib.redirect_stdout(buf):       # the repository prints progress lines; they are not part of the verdict
        mod = importlib.import_module(modname)
        return mod.run(tier=tier, seed=seed)


def slug(s):
    return re.sub(r'[^A-Za-z0-9_.-]+', '_', s)[:150]


# ------------------------------------------------------------------------------------------------------- main

def main(argv=None):
    ap = argparse.ArgumentParser(prog='check')
    ap.add_argument('prop')
    ap.add_argument('--tier', default=os.environ.get('VERIF_TIER', 'quick'))
    ap.add_argument('--replay')
    ap.add_argument('--update-baseline', action='store_true')
    ap.add_argument('--jobs', type=int, default=int(os.environ.get('VERIF_JOBS', '14')))
    ap.add_argument('--only')
    ap.add_argument('-v', '--verbose', action='store_true')
    a = ap.parse_args(argv)
    prop = a.prop
    tier = a.tier if a.tier in ('quick', 'thorough') else 'quick'
    seed = int(os.environ.get('VERIF_SEED', '0') or 0)
    t_start = time.time()
    _scratch()
    sys.path[:0] = [HOME, REPO]
    try:
        import contracts
        plan = contracts.plan_for(prop)
    except Exception:
        print("checker error while loading contracts:\n" + traceback.format_exc(), file=sys.stderr)
        return 3
    if plan is None:
        print("property %s is not claimed by this framework" % prop, file=sys.stderr)
        return 3
    if a.replay:
        return contracts.replay_file(prop, a.replay)

    timeout_ms = 20000 if tier == 'quick' else 60000
    os.environ['VERIF_TIER_EFFECTIVE'] = tier          # workers: thorough = every z3 proof is also offered to cvc5
    os.environ['VERIF_PROP'] = prop
    def expand(kind, name):
        n = contracts.parallel_parts(kind, name)
        return [(kind, name, seed, timeout_ms, k, n) for k in range(n)]
    jobs = [j for q in plan['functions'] for j in expand('function', q)] + \
           [j for n in plan['lemmas'] for j in expand('lemma', n)]
    if a.only:
        jobs = [j for j in jobs if a.only in j[1]]
    results = []
    done = set()
    closure_added = []
    ctx = mp.get_context('fork')
    while jobs:
        batch = _run_jobs(jobs, a.jobs, ctx)
        results.extend(batch)
        done |= {j[1] for j in jobs}
        # modularity: a caller was checked against its callees' CONTRACTS, so every contract it relied on must itself be
        # verified in this check (transitively), whatever properties it is tagged with
        more = sorted({q for r in batch for q in r.get('used', [])} - done)
        if a.only:
            more = []
        closure_added.extend(more)
        jobs = [j for q in more for j in expand('function', q)]

    crashed = [r for r in results if r['crash']]
    outside = [r for r in results if r['outside']]
    obligations = {}
    for r in results:
        for ob in r['obligations']:
            obligations.setdefault(ob['name'], []).append(dict(ob, unit=r['name']))
    names = sorted(obligations)

    # native / bounded parts (witnesses of known findings, bounded stand-ins, exhaustive evaluations)
    native = []
    native_error = None
    try:
        # each native part runs in its own forked child: they patch hash functions / constants in-process
        ctx2 = mp.get_context('fork')
        for modname in plan['native']:
            with ctx2.Pool(1) as pool1:
                native.append(pool1.apply(_worker_native, ((modname, tier, seed),)))
    except Exception:
        native_error = traceback.format_exc()

    base_path = os.path.join(HOME, 'baseline', 'obligations.json')
    baseline = {}
    if os.path.exists(base_path):
        baseline = json.load(open(base_path))
    if a.update_baseline:
        if crashed or outside:
            print("refusing to write a baseline from a run with checker errors", file=sys.stderr)
        else:
            baseline[prop] = names
            os.makedirs(os.path.dirname(base_path), exist_ok=True)
            json.dump(baseline, open(base_path, 'w'), indent=1, sort_keys=True)
            # ordering hints for the discharge ladder (which late stage discharged an obligation): speed only
            hp = os.path.join(HOME, 'baseline', 'hints.json')
            hints = json.load(open(hp)) if os.path.exists(hp) else {}
            def late(b):
                return (b or '').startswith('z3/instantiated') or 'cvc5' in (b or '')
            hints[prop] = {n: sorted({o['backend'] for o in obs if late(o['backend'])})
                           for n, obs in obligations.items() if any(late(o['backend']) for o in obs)}
            json.dump(hints, open(hp, 'w'), indent=1, sort_keys=True)
            print("baseline for %s: %d obligation names" % (prop, len(names)))
    expected = baseline.get(prop)

    # ---- verdicts
    failed = {}
    for n, obs in obligations.items():
        bad = [o for o in obs if o['status'] != 'discharged']
        if bad:
            failed[n] = bad
    checker_problems = []
    for r in crashed:
        checker_problems.append("crash in %s: %s" % (r['name'], r['crash'].strip().splitlines()[-1]))
    for r in outside:
        checker_problems.append("%s: %s" % (r['name'], r['outside']))
    if native_error:
        checker_problems.append("native part crashed: " + native_error.strip().splitlines()[-1])
    second = {'agree': 0, 'no_answer': 0, 'disagree': [], 'not_asked': 0}
    for r in results:
        so = r.get('second_opinion')
        if so:
            second['agree'] += so['agree']
            second['no_answer'] += so['no_answer']
            second['disagree'] += so['disagree']
            second['not_asked'] += so.get('not_asked', 0)
    for n in second['disagree']:
        checker_problems.append("solvers disagree on %s (z3: proved, cvc5: sat on the same hypotheses)" % n)
    for r in results:
        for n, res in r.get('vacuity', []):
            if res == 'unsat':
                checker_problems.append("vacuous: %s" % n)
    if expected is not None and not a.only:
        # names that exist on every run of a verified function: post-conditions, loop invariants, lemma steps.  (Frame, lock,
        # raise and call-site obligations exist only when the corresponding path is explored, which pruning may decide
        # differently from run to run - they are compared when present, not required to be present.)
        def stable(n_):
            return bool(re.search(r':(ensures\[\d+\]|loop\[\d+\]:(establish|preserve)\[\d+\])$', n_)) or ':lemma:' in n_
        missing = [n for n in expected if n not in obligations and stable(n)]
        # an obligation name that disappeared: the function changed shape (or could not be executed): undecided
        if missing and not (crashed or outside):
            checker_problems.append("obligations missing w.r.t. baseline: %s" % ", ".join(missing[:5]))
    elif expected is None and plan['functions'] and not a.update_baseline and not a.only:
        checker_problems.append("no committed baseline for %s" % prop)
    if results and not obligations and not a.only:
        checker_problems.append("zero obligations generated")
    if a.only:
        native = []

    known = contracts.known_findings(prop)
    violations = []
    known_lines = []
    os.makedirs(os.path.join(HOME, 'replays', prop), exist_ok=True)
    for n, bad in sorted(failed.items()):
        rp = os.path.join('replays', prop, slug(n) + '.json')
        rec = {'property': prop, 'obligation': n, 'failing_paths': bad, 'replayed': None}
        rep = None
        try:
            rep = contracts.replay_obligation(prop, n, bad, tier=tier, seed=seed)
        except Exception:
            rec['replay_error'] = traceback.format_exc()
        if not (rep and rep.get('failing_input_found')):
            # no native input from the solver's model: the directed native search of this property (its bounded
            # companion, run on the same tree in this very check) may have found one
            for nres in native:
                for vio in nres.get('violations', []):
                    if vio.get('failing_input_found'):
                        rep = {'failing_input_found': True, 'source': "bounded companion of this property (directed native "
                               "search on the same tree), not the solver's counterexample", 'via': vio.get('name'),
                               'what': (vio.get('what') or [])[:2], 'solver_side': rep}
                        break
                if rep and rep.get('failing_input_found'):
                    break
        rec['replayed'] = rep
        json.dump(rec, open(os.path.join(HOME, rp), 'w'), indent=1, default=str)
        if rep and rep.get('failing_input_found'):
            violations.append("VIOLATION property=%s replay=%s" % (prop, rp))
        else:
            violations.append("VIOLATION property=%s replay=%s no-failing-input-found" % (prop, rp))
    nat_cov = []
    for nres in native:
        nat_cov.append(nres.get('coverage', {}))
        for kf in nres.get('known_findings', []):
            known_lines.append("KNOWN-FINDING: property=%s %s" % (prop, kf))
        for vio in nres.get('violations', []):
            rp = os.path.join('replays', prop, slug(vio['name']) + '.json')
            json.dump(dict(vio, property=prop, tier=tier, seed=seed), open(os.path.join(HOME, rp), 'w'), indent=1, default=str)
            violations.append("VIOLATION property=%s replay=%s" % (prop, rp))
        for pb in nres.get('problems', []):
            checker_problems.append(pb)

    # ---- evidence
    n_obl = len(names)
    n_dis = sum(1 for n in names if n not in failed)
    backends = {}
    solver_s = 0.0
    samples = []
    for n in names:
        for o in obligations[n]:
            backends[o['backend'] or 'none'] = backends.get(o['backend'] or 'none', 0) + 1
            solver_s += o['seconds']
    for n in names[:6]:
        o = obligations[n][0]
        samples.append({'obligation': n, 'clause': o['where'][:200], 'paths': len(obligations[n]),
                        'status': 'discharged' if n not in failed else o['status']})
    funcs = []
    seen_f = set()
    for r in results:
        if r['info'] and r['kind'] == 'function' and r['name'] not in seen_f:
            seen_f.add(r['name'])
            funcs.append(dict(r['info'], wall_s=r['wall']))
    trusted = sorted(set(plan['trusted']) | {t for r in results for t in r['trusted_used']})
    assumptions = sorted({x for r in results for x in r['assumptions']} | set(plan.get('assumptions', [])))
    slow = [{'obligation': n, 'seconds': round(max(o['seconds'] for o in obs), 2)} for n, obs in obligations.items()
            if max(o['seconds'] for o in obs) > 2.0]
    level = plan['level']
    coverage = {
        'obligations': n_obl, 'discharged': n_dis,
        'path_obligations': sum(len(v) for v in obligations.values()),
        'checker_cmd': "./check %s --tier %s" % (prop, tier),
        'trusted_base': trusted,
        'functions_under_contract': funcs,
        'lemmas': plan['lemmas'],
        'callee_contracts_verified_too': closure_added,
        'inlined_without_contract': sorted({x for r in results for x in r['inlined']}),
        'backends': backends, 'solver_seconds': round(solver_s, 2), 'slow': slow,
        'samples': samples,
        'baseline_names': len(expected) if expected is not None else None,
        'checker_problems': checker_problems,
        'explanation': plan.get('explanation', ''),
    }
    if tier == 'thorough':
        coverage['second_solver'] = {'cvc5_confirms': second['agree'], 'cvc5_no_answer_in_10s': second['no_answer'],
                                     'not_asked_time_budget_used_up': second['not_asked'], 'disagreements': second['disagree']}
    if nat_cov:
        coverage['bounded'] = nat_cov
        ev = sum(c.get('evaluations', 0) for c in nat_cov)
        dn = sum(c.get('distinct_nontrivial', 0) for c in nat_cov)
        coverage['evaluations'] = ev
        coverage['distinct_nontrivial'] = dn
        coverage['rule'] = " | ".join(c.get('rule', '') for c in nat_cov if c.get('rule'))
        for c in nat_cov:
            samples.extend(c.get('samples', [])[:3])
        if all(c.get('exhaustive') for c in nat_cov) and nat_cov:
            coverage['exhaustive'] = True
    evidence = {
        'property_id': prop, 'tier': tier, 'seed': seed, 'level': level, 'coverage': coverage,
        'assumptions': ["%s: %s" % (a_, contracts.ASSUMPTION_TEXT[a_]) if a_ in getattr(contracts, 'ASSUMPTION_TEXT', {}) else a_
                        for a_ in assumptions] + plan.get('notes', []),
        'wall_s': round(time.time() - t_start, 2), 'violations': len(violations),
    }
    os.makedirs(os.path.join(HOME, 'evidence'), exist_ok=True)
    json.dump(evidence, open(os.path.join(HOME, 'evidence', prop + '.json'), 'w'), indent=1, default=str)

    # ---- output
    print("%s [%s]: %d obligations (%d path-level), %d discharged; %d functions, %d lemmas; %.1fs"
          % (prop, tier, n_obl, coverage['path_obligations'], n_dis, len(funcs), len(plan['lemmas']),
             time.time() - t_start))
    if a.verbose:
        for n in names:
            print("  %-11s %s" % ('ok' if n not in failed else obligations[n][0]['status'], n))
    for line in known_lines:
        print(line)
    for pb in checker_problems:
        print("CHECKER: " + pb, file=sys.stderr)
    for n, bad in sorted(failed.items()):
        for o in bad[:3]:
            print("  FAILED %s [%s] %s %s" % (n, o['status'], o['where'][:160], (o['detail'] or '')[:200]))
            if o.get('model'):
                print("    counterexample: " + str(o['model'])[:600])
    if violations:
        for v in violations:
            print(v)
        return 1
    if checker_problems:
        return 3
    return 0


if __name__ == '__main__':
    sys.exit(main())
