"""Calls: contracts at call sites, inlining, constructors of value classes, builtins and methods of builtin types."""
from __future__ import annotations
import ast
import builtins
import inspect
import struct as _struct
import io

import z3

from .types import (T, INT, BOOL, BYTES, STR, NONE, ANY, OPT, LIST, SET, MAP, TUPLE, CLS, Outside, to_sort, opt_sort,
                    tuple_sort, from_annotation, BYTES_SORT, BV8)
from .engine import (EmptyMap, EMPTY_MAP, RangeV, IterV, V, Ref, HeapObj, ExcVal, Raised, Closure, BoundMethod, BuiltinMethod, LocalClass, GhostNS,
                     Frame, State, is_concrete, bytes_term)
from .interp import Interp, Ctl, inspect_getattr_static, _is_true, _is_false


class Calls(Interp):

    # ================================================================================================ call dispatch

    def call_expr(self, e, st):
        # super().method(...): the next definition of `method` after the current function's class in the object's MRO
        if isinstance(e.func, ast.Attribute) and isinstance(e.func.value, ast.Call) and isinstance(e.func.value.func, ast.Name) \
                and e.func.value.func.id == 'super' and not e.func.value.args and not e.func.value.keywords:
            qn = (st.frame.qualname or '').split('#')[0].split(':')[0]
            try:
                owner = self.resolve(qn.rsplit('.', 1)[0])
            except Exception:
                owner = None
            me = st.frame.vars.get('self')
            if not isinstance(owner, type) or not isinstance(me, Ref):
                raise Outside("super() outside a method of a known class")
            real = st.heap[me.loc].cls
            mro = list(getattr(real, '__mro__', ()))
            if owner not in mro:
                raise Outside("super(): %s is not in the MRO of %r" % (owner.__name__, real))
            fn = None
            for k in mro[mro.index(owner) + 1:]:
                if e.func.attr in k.__dict__:
                    fn = k.__dict__[e.func.attr]
                    break
            if fn is None or fn is object.__init__:
                yield st, None
                return
            for s2, args in self.ev_list(e.args, st):
                if isinstance(args, Raised):
                    yield s2, args
                    continue
                kw = {}
                s3 = s2
                for k_ in e.keywords:
                    (s3, val), = list(self.ev(k_.value, s3))
                    kw[k_.arg] = val
                yield from self.call_function(fn, [me] + list(args), kw, s3, inline=True)
            return
        # special forms that need the un-evaluated argument
        if isinstance(e.func, ast.Name):
            n = e.func.id
            if n in ('sum', 'all', 'any', 'min', 'max', 'sorted', 'list', 'set', 'tuple') and len(e.args) == 1 and \
                    isinstance(e.args[0], (ast.GeneratorExp, ast.ListComp)) and self._is_builtin(n, st):
                yield from self.reduce_comprehension(n, e.args[0], st, e)
                return
            if st.spec and n == 'old' and self._unbound(n, st):
                if st.old is None:
                    raise Outside("old() outside a post-condition")
                o = st.old.fork()
                o.spec = True
                o.bound = list(st.bound)
                # bound variables of enclosing quantifiers stay visible
                for name, val in self._spec_locals(st).items():
                    o.frame.vars.setdefault(name, val)
                for s2, v in self.ev(e.args[0], o):
                    if isinstance(v, Ref):
                        v = self.lift(v, s2)
                    yield st, v
                return
            if st.spec and n == 'every' and self._unbound(n, st):
                # every(T, lambda x: P): universal quantification over all values of a type
                (s1, tyv), = list(self.ev(e.args[0], st))
                if isinstance(tyv, type) and tyv in self.reg.by_py:
                    ty = CLS(tyv.__name__)
                elif isinstance(tyv, type) and tyv in self.reg.abstract:
                    ty = CLS(self.reg.abstract[tyv])
                elif tyv is int:
                    ty = INT
                elif tyv is bytes:
                    ty = BYTES
                elif isinstance(tyv, T):
                    ty = tyv
                else:
                    raise Outside("every() over %r" % (tyv,))
                (s2, lam), = list(self.ev(e.args[1], st))
                x = self.fresh('x', ty)
                sub = st.fork()
                sub.bound = st.bound + [x.t]
                outs = list(self.call_value(lam, [x], {}, sub, e))
                if len(outs) != 1 or isinstance(outs[0][1], Raised):
                    raise Outside("every(): body must be a pure expression")
                body = self.b(self.truth(outs[0][1], outs[0][0]))
                yield st, V(z3.ForAll([x.t], body), BOOL)
                return
            if st.spec and n == 'same' and self._unbound(n, st):
                # abstract-value equality of two specification values (not python __eq__)
                (s1, a), = list(self.ev(e.args[0], st))
                (s2, b2), = list(self.ev(e.args[1], st))
                la = self.lift(a, st)
                yield st, V(la.t == self.term(b2, la.ty, st), BOOL)
                return
            if st.spec and n == 'implies' and self._unbound(n, st):
                (s1, a), = list(self.ev(e.args[0], st))
                (s2, b2), = list(self.ev(e.args[1], st))
                yield st, V(z3.Implies(self.b(self.truth(a, st)), self.b(self.truth(b2, st))), BOOL)
                return
            if st.spec and n == 'ite' and self._unbound(n, st):
                (s1, c), = list(self.ev(e.args[0], st))
                (s2, a), = list(self.ev(e.args[1], st))
                (s3, b2), = list(self.ev(e.args[2], st))
                if isinstance(a, EmptyMap):
                    lb = self.lift(b2, st)
                    la = V(self.term(a, lb.ty, st), lb.ty)
                else:
                    la = self.lift(a, st)
                    lb = V(self.term(b2, la.ty, st), la.ty) if isinstance(b2, EmptyMap) else self.lift(b2, st)
                yield st, V(z3.If(self.b(self.truth(c, st)), la.t, self.term(lb, la.ty, st)), la.ty)
                return
        for s, fv in self.ev(e.func, st):
            if isinstance(fv, Raised):
                yield s, fv
                continue
            if any(isinstance(a, ast.Starred) for a in e.args) or any(k.arg is None for k in e.keywords):
                raise Outside("star arguments at line %s" % e.lineno)
            for s2, vals in self.ev_list(list(e.args) + [k.value for k in e.keywords], s):
                if isinstance(vals, Raised):
                    yield s2, vals
                    continue
                args = vals[:len(e.args)]
                kwargs = {k.arg: v for k, v in zip(e.keywords, vals[len(e.args):])}
                s2.trace.append("L%s:call" % e.lineno)
                yield from self.call_value(fv, args, kwargs, s2, e)

    def _is_builtin(self, n, st):
        try:
            return self.lookup(n, st) is getattr(builtins, n)
        except Outside:
            return False

    def _unbound(self, n, st):
        try:
            self.lookup(n, st)
            return False
        except Outside:
            return True

    def _spec_locals(self, st):
        return dict(st.frame.vars)

    def call_value(self, fv, args, kwargs, st, e=None):
        if isinstance(fv, tuple) and len(fv) == 2 and fv[0] == 'ghost':
            r = fv[1](self, st, *args, **kwargs)
            yield st, r
            return
        if isinstance(fv, tuple) and fv and fv[0] == 'opaque':
            yield st, ('opaque',)
            return
        if isinstance(fv, Closure):
            yield from self.call_closure(fv, args, kwargs, st)
            return
        if isinstance(fv, BoundMethod):
            if isinstance(fv.func, Closure):
                yield from self.call_closure(fv.func, [fv.self_val] + list(args), kwargs, st)
            else:
                yield from self.call_function(fv.func, [fv.self_val] + list(args), kwargs, st, owner=fv.cls)
            return
        if isinstance(fv, BuiltinMethod):
            yield from self.call_builtin_method(fv.self_val, fv.name, args, kwargs, st, e)
            return
        if isinstance(fv, LocalClass):
            loc = next(self.loc_counter)
            st.heap[loc] = HeapObj('obj', fields={}, cls=fv)
            yield st, Ref(loc)
            return
        if isinstance(fv, type):
            yield from self.call_class(fv, args, kwargs, st, e)
            return
        if inspect.isfunction(fv) or inspect.ismethod(fv):
            if inspect.ismethod(fv):
                args = [fv.__self__] + list(args)
                fv = fv.__func__
            yield from self.call_function(fv, args, kwargs, st)
            return
        if inspect.isbuiltin(fv) or callable(fv):
            yield from self.call_external(fv, args, kwargs, st, e)
            return
        raise Outside("call of %r" % (fv,))

    # ------------------------------------------------------------------------------------------------ repo functions

    def is_repo(self, func):
        return getattr(func, '__module__', '') and func.__module__.split('.')[0] == 'skepticoin'

    def call_function(self, func, args, kwargs, st, inline=False, owner=None):
        """call of a real python function object"""
        if not self.is_repo(func):
            yield from self.call_external(func, args, kwargs, st, None)
            return
        qn = self.qualname_of(func)
        ext = self.externals.get(qn)
        if ext is not None:
            yield from ext(self, st, args, kwargs)
            return
        con = self.contracts.get(qn)
        cur = self.current or ''
        if '#' in cur and (qn + '#' + cur.split('#', 1)[1]) in self.contracts:
            # a function verified under a view (second contract) sees the same view of its callees where one is given
            con = self.contracts[qn + '#' + cur.split('#', 1)[1]]
        if con is not None and not inline and not (qn == self.current and st.depth == 0 and not con.recursive_ok) \
                and not st.spec and qn not in self.force_inline and not (getattr(self, 'force_inline_all', False)
                                                                         and not con.trusted and qn in self.inline_for_rt1):
            yield from self.apply_contract(con, func, args, kwargs, st)
            return
        if con is not None and st.spec and con.uf_name and not inline:
            yield from self.apply_contract(con, func, args, kwargs, st)
            return
        # inline
        if st.depth >= self.INLINE_DEPTH:
            raise Outside("inlining depth exceeded at %s (recursive function without contract?)" % qn)
        self.inlined.add(qn)
        node, _src = self.func_ast(func)
        yield from self.run_body(node, func.__globals__, qn, args, kwargs, st, parent=None)

    def call_closure(self, clo, args, kwargs, st):
        yield from self.run_body(clo.node, clo.globs, clo.qualname, args, kwargs, st, parent=None, captured=clo.frame_index)

    def bind_params(self, node, args, kwargs, st, qualname):
        a = node.args
        if a.vararg or a.kwarg or a.kwonlyargs or a.posonlyargs:
            raise Outside("unsupported parameter kinds in %s" % qualname)
        names = [x.arg for x in a.args]
        vals = {}
        if len(args) > len(names):
            raise Outside("too many arguments for %s" % qualname)
        for n, v in zip(names, args):
            vals[n] = v
        for k, v in kwargs.items():
            if k not in names or k in vals:
                raise Outside("bad keyword %s for %s" % (k, qualname))
            vals[k] = v
        defaults = a.defaults
        for n, d in zip(names[len(names) - len(defaults):], defaults):
            if n not in vals:
                if isinstance(d, ast.Constant):
                    vals[n] = d.value
                else:
                    outs = list(self.ev(d, st))
                    if len(outs) != 1 or isinstance(outs[0][1], Raised):
                        raise Outside("default value of %s in %s" % (n, qualname))
                    vals[n] = outs[0][1]
        missing = [n for n in names if n not in vals]
        if missing:
            raise Outside("missing arguments %s for %s" % (missing, qualname))
        return vals

    def run_body(self, node, globs, qualname, args, kwargs, st, parent, captured=None):
        vals = self.bind_params(node, args, kwargs, st, qualname)
        st.stack.append(Frame(vals, parent, globs, qualname, captured))
        if qualname in self.force_inline and qualname in self.contracts:
            # a generic helper that is verified where it is inlined: the ghost names of its contract (entry values)
            # become locals of this activation, for its loop invariants
            con_ = self.contracts[qualname]
            for lname, ltext in con_.lets:
                val = self.spec_value(ltext, st)
                if isinstance(val, Ref) and st.heap[val.loc].kind in ('list', 'set', 'dict') and st.heap[val.loc].val is not None:
                    val = st.heap[val.loc].val
                st.frame.vars[lname] = val
        st.depth += 1
        depth = len(st.stack)
        for s, ctl in self.exec_block(node.body, st):
            assert len(s.stack) == depth, "stack discipline"
            s.stack.pop()
            s.depth -= 1
            if ctl is None:
                yield s, None
            elif ctl.kind == 'return':
                yield s, ctl.val
            elif ctl.kind == 'raise':
                yield s, Raised(ctl.val)
            else:
                raise Outside("break/continue outside loop in %s" % qualname)

    # ------------------------------------------------------------------------------------------------ classes

    def call_class(self, cls, args, kwargs, st, e=None):
        if cls in self.reg.by_py:
            yield from self.construct(self.reg.by_py[cls], args, kwargs, st)
            return
        if cls in self.stateful:
            yield from self.construct_stateful(cls, args, kwargs, st)
            return
        if issubclass(cls, BaseException):
            yield st, ExcVal(cls, tuple(args))
            return
        if cls is bytes and not args:
            yield st, b''
            return
        if cls in (int, bool, str, list, set, dict, tuple, bytes, type, range, enumerate, reversed):
            yield from self.call_external(cls, args, kwargs, st, e)
            return
        if cls is io.BytesIO:
            yield from self.new_stream(args, st)
            return
        ext = self.externals.get(cls)
        if ext is not None:
            yield from ext(self, st, args, kwargs)
            return
        raise Outside("instantiation of %s" % cls.__name__)

    def construct(self, ci, args, kwargs, st):
        """run the real __init__ on a record under construction, then freeze into a datatype term"""
        init = ci.pyclass.__init__
        if init is object.__init__:
            if args or kwargs:
                raise Outside("arguments to %s()" % ci.name)
            yield st, V(self.mk(ci, []), CLS(ci.name))
            return
        if st.spec:
            # in a specification: the value the constructor builds when it accepts its arguments (its checks are the
            # class's type invariant, not part of the value)
            sub = st.fork()
            sub.spec = False
            loc = next(self.loc_counter)
            sub.heap[loc] = HeapObj('obj', fields={}, cls=ci.pyclass)
            outs = [(s, r) for s, r in self.call_function(init, [Ref(loc)] + list(args), kwargs, sub, inline=True)
                    if not isinstance(r, Raised)]
            if len(outs) != 1:
                raise Outside("constructor of %s in a specification has %d normal outcomes" % (ci.name, len(outs)))
            s1, _r = outs[0]
            h = s1.heap[loc]
            ts = [self.term(h.fields[f], fty, s1) for f, fty in ci.fields]
            yield st, V(self.mk(ci, ts), CLS(ci.name))
            return
        loc = next(self.loc_counter)
        st.heap[loc] = HeapObj('obj', fields={}, cls=ci.pyclass)
        me = Ref(loc)
        for s, r in self.call_function(init, [me] + list(args), kwargs, st, inline=True):
            h = s.heap.pop(loc)
            if isinstance(r, Raised):
                yield s, r
                continue
            ts = []
            for f, fty in ci.fields:
                if f not in h.fields:
                    raise Outside("constructor of %s did not set %s" % (ci.name, f))
                ts.append(self.term(h.fields[f], fty, s))
            yield s, V(self.mk(ci, ts), CLS(ci.name))

    @staticmethod
    def mk(ci, ts):
        return ci.ctor(*ts) if ts or not isinstance(ci.ctor, z3.ExprRef) else ci.ctor

    def construct_stateful(self, cls, args, kwargs, st):
        loc = next(self.loc_counter)
        st.heap[loc] = HeapObj('obj', fields={}, cls=cls)
        st.writes += 1
        me = Ref(loc)
        init = cls.__init__
        if init is object.__init__:
            yield st, me
            return
        for s, r in self.call_function(init, [me] + list(args), kwargs, st, inline=True):
            if isinstance(r, Raised):
                yield s, r
            else:
                yield s, me

    def valid_instance(self, ty, name, st):
        """fresh symbolic value of type ty together with its type invariant (assumed in st)"""
        v = self.fresh(name, ty)
        self.assume_valid(v, st)
        return v

    def assume_valid(self, v, st, depth=0):
        """assume the type invariant of a symbolic value: for value classes, that the real constructor accepts its
        fields; element-wise (quantified) for lists; for maps on look-up (see index)."""
        c = self.validity(v, st, depth)
        if not _is_true(c):
            st.assume(self.b(c))

    def validity(self, v, st, depth=0):
        ty = v.ty
        k = ty.kind
        if k in ('int', 'bool', 'bytes', 'str', 'none', 'any', 'map', 'set'):
            return True
        if depth > 6:
            return True
        if k == 'opt':
            o = opt_sort(to_sort(ty.args[0], self.reg))
            inner = self.validity(V(o.val(v.t), ty.args[0]), st, depth + 1)
            return True if _is_true(inner) else z3.Implies(o.is_some(v.t), self.b(inner))
        if k == 'list':
            # element invariants are instantiated when an element is taken out (index / iteration), not quantified
            return True
        if k == 'tuple':
            return self._and([self.validity(x, st, depth + 1) for x in self.untuple(v)])
        if k == 'cls':
            root = self.reg.root_of(ty.args[0])
            cis = self.reg.concrete(root)
            if ty.args[0] in self.reg.classes and len(cis) > 1 and ty.args[0] != root:
                cis = [self.reg.classes[ty.args[0]]]
            cases = []
            for ci in cis:
                cases.append((ci.recog(v.t) if len(self.reg.concrete(root)) > 1 else True, self.class_validity(ci, v, st, depth)))
            if len(cases) == 1:
                rec, c = cases[0]
                return c if _is_true(rec) else self._and([rec, c])
            return self._and([z3.Implies(rec, self.b(c)) for rec, c in cases if not _is_true(c)])
        return True

    def class_validity(self, ci, v, st, depth):
        """condition under which ci's real __init__ returns normally on v's own field values, and rebuilds v"""
        if getattr(ci, 'no_invariant', False):
            return True         # a record standing for an object of an external library: no constructor of ours to consult
        key = ('valid', ci.name)
        init = ci.pyclass.__init__
        conds = []
        for f, fty in ci.fields:
            conds.append(self.validity(V(ci.acc[f](v.t), fty), st, depth + 1))
        if init is object.__init__:
            return self._and(conds)
        node, _ = self.func_ast(init)
        pnames = [a.arg for a in node.args.args][1:]
        fieldmap = dict(ci.fields)
        # constructor arguments = the fields of the same name (fields set from a parameter of the same name)
        param_for_field = getattr(ci, 'param_field', {})
        args = []
        for p in pnames:
            fname = param_for_field.get(p, p)
            if fname in fieldmap:
                args.append(V(ci.acc[fname](v.t), fieldmap[fname]))
            else:
                # parameter not stored as a field: use its default if any
                args.append(None)
        sub = State()
        sub.stack = [Frame({}, None, init.__globals__, 'validity')]
        loc = next(self.loc_counter)
        sub.heap[loc] = HeapObj('obj', fields={}, cls=ci.pyclass)
        ok_paths = []
        for s2, r in self.call_function(init, [Ref(loc)] + args, {}, sub, inline=True):
            if isinstance(r, Raised):
                continue
            h = s2.heap[loc]
            same = [self.term(h.fields[f], fty, s2) == ci.acc[f](v.t) for f, fty in ci.fields if f in h.fields]
            ok_paths.append(self._and(list(s2.pc) + same))
        conds.append(self._or(ok_paths))
        return self._and(conds)

    # ------------------------------------------------------------------------------------------------ externals

    def call_external(self, fv, args, kwargs, st, e=None):
        h = self.externals.get(fv)
        if h is None:
            name = getattr(fv, '__qualname__', None) or getattr(fv, '__name__', None)
            mod = getattr(fv, '__module__', None)
            h = self.externals.get("%s.%s" % (mod, name)) or self.externals.get(name)
        if h is not None:
            yield from h(self, st, args, kwargs)
            return
        m = getattr(self, 'bi_' + getattr(fv, '__name__', '?'), None)
        if m is not None and getattr(builtins, fv.__name__, None) is fv:
            yield from m(args, kwargs, st, e)
            return
        if fv is _struct.pack:
            yield from self.struct_pack(args, st)
            return
        if fv is _struct.unpack:
            yield from self.struct_unpack(args, st)
            return
        raise Outside("call of external %r (line %s) without a stub contract" % (fv, getattr(e, 'lineno', '?')))

    # builtins -----------------------------------------------------------------------------------------------------

    def bi_len(self, args, kwargs, st, e):
        (v,) = args
        if isinstance(v, Ref):
            h = st.heap[v.loc]
            if h.kind in ('list', 'set', 'dict'):
                if h.val is None:
                    yield st, 0
                    return
                v = h.val
            else:
                raise Outside("len of object")
        if is_concrete(v) or isinstance(v, (tuple, list, dict)):
            yield st, len(v)
            return
        if v.ty.kind in ('bytes', 'list', 'str'):
            yield st, V(z3.Length(v.t), INT)
            return
        if v.ty.kind == 'opt' and v.ty.args[0].kind in ('bytes', 'list', 'str') and st.spec:
            yield st, V(z3.Length(opt_sort(to_sort(v.ty.args[0], self.reg)).val(v.t)), INT)
            return
        if v.ty.kind in ('map', 'set'):
            card = self.uf('card_' + str(v.t.sort()).replace(' ', ''), v.t.sort(), z3.IntSort())
            st.assume(card(v.t) >= 0)
            yield st, V(card(v.t), INT)
            return
        raise Outside("len of %r" % (v.ty,))

    def bi_isinstance(self, args, kwargs, st, e):
        v, cls = args
        if isinstance(cls, tuple):
            cs = [self.isinstance_(v, c, st) for c in cls]
            r = self._or(cs)
        else:
            r = self.isinstance_(v, cls, st)
        yield st, (r if isinstance(r, bool) else V(r, BOOL))

    def isinstance_(self, v, cls, st):
        if isinstance(v, Ref):
            h = st.heap[v.loc]
            if h.kind == 'obj' and isinstance(h.cls, type):
                return issubclass(h.cls, cls)
            if h.kind == 'list':
                return cls is list
            if h.kind == 'dict':
                return cls is dict
            if h.kind == 'set':
                return cls is set
            raise Outside("isinstance on heap object")
        if isinstance(v, ExcVal):
            return issubclass(v.cls, cls)
        if not isinstance(v, V):
            return isinstance(v, cls)
        k = v.ty.kind
        if k == 'opt':
            o = opt_sort(to_sort(v.ty.args[0], self.reg))
            inner = self.isinstance_(V(o.val(v.t), v.ty.args[0]), cls, st)
            return self._and([o.is_some(v.t), inner])
        if k == 'cls':
            root = self.reg.root_of(v.ty.args[0])
            cis = self.reg.concrete(root)
            if v.ty.args[0] in self.reg.classes and v.ty.args[0] != root:
                return issubclass(self.reg.classes[v.ty.args[0]].pyclass, cls)
            hits = [ci for ci in cis if issubclass(ci.pyclass, cls)]
            if len(hits) == len(cis):
                return True
            if not hits:
                return False
            return self._or([ci.recog(v.t) for ci in hits])
        simple = {'int': int, 'bool': bool, 'bytes': bytes, 'str': str}
        if k in simple:
            return issubclass(simple[k], cls)
        if k == 'list':
            return cls is list
        if k == 'tuple':
            return cls is tuple
        raise Outside("isinstance on %r" % (v.ty,))

    def bi_int(self, args, kwargs, st, e):
        (v,) = args
        if is_concrete(v):
            yield st, int(v)
        elif isinstance(v, V) and v.ty.kind in ('int', 'bool'):
            yield st, V(self.term(v, INT), INT)
        else:
            raise Outside("int() of %r" % (v,))

    def bi_bool(self, args, kwargs, st, e):
        t = self.truth(args[0], st)
        yield st, (t if isinstance(t, bool) else V(t, BOOL))

    def bi_str(self, args, kwargs, st, e):
        if args and is_concrete(args[0]):
            yield st, str(args[0])
        else:
            yield st, V(self.fresh_term('str', z3.StringSort()), STR)

    def bi_repr(self, args, kwargs, st, e):
        yield st, V(self.fresh_term('repr', z3.StringSort()), STR)

    def bi_print(self, args, kwargs, st, e):
        self.assumptions_used.add('A-LOG')
        yield st, None

    def bi_abs(self, args, kwargs, st, e):
        (v,) = args
        if is_concrete(v):
            yield st, abs(v)
        else:
            t = self.term(v, INT)
            yield st, V(z3.If(t >= 0, t, -t), INT)

    def bi_pow(self, args, kwargs, st, e):
        if len(args) != 2:
            raise Outside("3-argument pow")
        if is_concrete(args[0]) and is_concrete(args[1]):
            yield st, pow(args[0], args[1])
        else:
            yield st, self.power(args[0], args[1], st)

    def _minmax(self, args, st, is_min):
        if len(args) == 1:
            raise Outside("min/max of an iterable")
        if all(is_concrete(a) for a in args):
            return (min if is_min else max)(args)
        ts = [self.term(a, INT) for a in args]
        r = ts[0]
        for t in ts[1:]:
            r = z3.If((t < r) if is_min else (t > r), t, r)
        return V(r, INT)

    def bi_min(self, args, kwargs, st, e):
        yield st, self._minmax(args, st, True)

    def bi_max(self, args, kwargs, st, e):
        yield st, self._minmax(args, st, False)

    def bi_range(self, args, kwargs, st, e):
        if len(args) == 1:
            yield st, RangeV(0, args[0], 1)
        elif len(args) == 2:
            yield st, RangeV(args[0], args[1], 1)
        else:
            yield st, RangeV(*args)

    def bi_enumerate(self, args, kwargs, st, e):
        yield st, IterV('enumerate', args[0])

    def bi_reversed(self, args, kwargs, st, e):
        yield st, IterV('reversed', args[0])

    def bi_list(self, args, kwargs, st, e):
        if not args:
            yield st, self.new_container(st, 'list', None)
            return
        v = args[0]
        if isinstance(v, RangeV):
            raise Outside("list(range(...))")
        if isinstance(v, IterV) and v.kind in ('values', 'keys'):
            yield st, self.new_container(st, 'list', self.enumerate_map(v.base, v.kind, st))
            return
        if isinstance(v, Ref):
            v = self.lift(v, st)
        if isinstance(v, V) and v.ty.kind == 'list':
            yield st, self.new_container(st, 'list', v)
            return
        raise Outside("list() of %r" % (v,))

    def bi_set(self, args, kwargs, st, e):
        if not args:
            yield st, self.new_container(st, 'set', None)
            return
        raise Outside("set() of an iterable")

    def bi_dict(self, args, kwargs, st, e):
        if not args and not kwargs:
            yield st, self.new_container(st, 'dict', None)
            return
        raise Outside("dict() with arguments")

    def bi_tuple(self, args, kwargs, st, e):
        v = args[0]
        if isinstance(v, tuple):
            yield st, v
            return
        raise Outside("tuple() of %r" % (v,))

    def bi_getattr(self, args, kwargs, st, e):
        if len(args) != 2 or not isinstance(args[1], str):
            raise Outside("getattr with non-constant name")
        yield from self.getattr_(args[0], args[1], st, e)

    def bi_hash(self, args, kwargs, st, e):
        yield st, V(self.fresh_term('pyhash', z3.IntSort()), INT)

    def bi_sum(self, args, kwargs, st, e):
        v = args[0]
        if isinstance(v, Ref):
            v = self.lift(v, st)
        if isinstance(v, V) and v.ty.kind == 'list' and v.ty.args[0].kind == 'int':
            yield st, self.seq_sum(v, st)
            return
        raise Outside("sum() of %r" % (v,))

    def bi_all(self, args, kwargs, st, e):
        raise Outside("all() of a non-generator")

    def bi_any(self, args, kwargs, st, e):
        raise Outside("any() of a non-generator")

    def bi_type(self, args, kwargs, st, e):
        v = args[0]
        if isinstance(v, Ref) and st.heap[v.loc].kind == 'obj':
            yield st, st.heap[v.loc].cls
            return
        if isinstance(v, V) and v.ty.kind == 'cls' and v.ty.args[0] in self.reg.classes:
            yield st, self.reg.classes[v.ty.args[0]].pyclass
            return
        if isinstance(v, V) and v.ty.kind == 'cls':
            return_opaque = ('opaque',)       # the class of a hierarchy value: only used for display (type(x).__name__)
            yield st, return_opaque
            return
        raise Outside("type() of %r" % (v,))

    def bi_sorted(self, args, kwargs, st, e):
        raise Outside("sorted()")

    def bi_bytes(self, args, kwargs, st, e):
        if not args:
            yield st, b''
            return
        if len(args) == 1 and is_concrete(args[0]) and isinstance(args[0], int) and not isinstance(args[0], bool) and 0 <= args[0] <= 4096:
            yield st, bytes(args[0])
            return
        raise Outside("bytes() with arguments")

    def seq_sum(self, v, st):
        """sum of a Seq(Int): prefix-sum function with its defining axioms (ghost, A-MAPSUM not needed)"""
        f = self.uf('seqsum', z3.SeqSort(z3.IntSort()), z3.IntSort(), z3.IntSort())
        i = self.fresh_term('i', z3.IntSort())
        self.add_func_axiom(f(v.t, 0) == 0)
        self.add_func_axiom(z3.ForAll([i], z3.Implies(z3.And(0 <= i, i < z3.Length(v.t)),
                                                      f(v.t, i + 1) == f(v.t, i) + v.t[i]), patterns=[f(v.t, i + 1)]))
        return V(f(v.t, z3.Length(v.t)), INT)

    # ------------------------------------------------------------------------------------------------ builtin methods

    def call_builtin_method(self, recv, name, args, kwargs, st, e=None):
        line = getattr(e, 'lineno', '?')
        if isinstance(recv, Ref):
            h = st.heap[recv.loc]
            m = getattr(self, 'm_%s_%s' % (h.kind, name), None)
            if m is None:
                raise Outside("method %s on mutable %s (line %s)" % (name, h.kind, line))
            yield from m(recv, h, args, kwargs, st, e)
            return
        if recv is int and name == 'from_bytes' or isinstance(recv, type) and recv is int:
            pass
        if isinstance(recv, tuple) and recv and recv[0] == 'lock' and name in ('acquire', 'release'):
            # threading.Lock used explicitly: single-threaded semantics, but the hold count is tracked so that a path
            # that ends with the lock still held fails the :lock-released obligation
            st.locks_held = getattr(st, 'locks_held', 0) + (1 if name == 'acquire' else -1)
            yield st, (True if name == 'acquire' else None)
            return
        if isinstance(recv, tuple) and recv and recv[0] == 'extobj':
            # an object of an external library with stub contracts for its methods: ('extobj', kind, payload...)
            h = self.externals.get('extobj:%s.%s' % (recv[1], name))
            if h is None:
                raise Outside("method %s of external object %s has no stub contract" % (name, recv[1]))
            yield from h(self, st, [recv] + list(args), kwargs)
            return
        if isinstance(recv, tuple) and recv and recv[0] in ('logger', 'opaque'):
            self.assumptions_used.add('A-LOG')
            yield st, None
            return
        if isinstance(recv, tuple) and recv and recv[0] == 'external':
            # sockets, selectors and the like (A-SOCK): a call returns something the verification does not look at, or
            # raises an exception of an unknown class
            self.assumptions_used.add('A-SOCK')
            from .stmts import AnyException
            s_r = st.fork()
            s_r.trace.append("external %s raises" % name)
            yield s_r, Raised(ExcVal(AnyException, (), 'external call .%s()' % name))
            rty = self.external_result_types.get(name)
            yield st, (self.fresh('ext_' + name, rty, st) if rty is not None else ('opaque',))
            return
        if isinstance(recv, EmptyMap):
            if name == 'set':
                k, v2 = args
                kl, vl = self.lift(k, st), self.lift(v2, st)
                typed = V(self.term(recv, MAP(kl.ty, vl.ty), st), MAP(kl.ty, vl.ty))
                yield from self.v_map_set(typed, args, kwargs, st, e)
                return
            if name == 'mutate':
                yield st, self.new_container(st, 'dict', None)
                return
            if name == 'get':
                yield st, (args[1] if len(args) > 1 else None)
                return
            raise Outside("method %s on an empty map of unknown type" % name)
        if isinstance(recv, V) or is_concrete(recv):
            ty = self.ty_of(recv)
            m = getattr(self, 'v_%s_%s' % (ty.kind, name), None)
            if m is None:
                raise Outside("method %s on %r (line %s)" % (name, ty, line))
            yield from m(recv, args, kwargs, st, e)
            return
        if isinstance(recv, tuple) and recv and recv[0] == 'pydict':
            raise Outside("method on dict display")
        if isinstance(recv, list) and st.spec and name == 'append' and len(args) == 1:
            # inside a specification a list display is a python list of values (no branching there): grow it in place
            recv.append(args[0])
            yield st, None
            return
        raise Outside("method %s on %r (line %s)" % (name, recv, line))

    # ---- mutable list / set / dict ------------------------------------------------------------------------------

    def _store_container(self, st, ref, h, newval):
        if h.frozen:
            raise Outside("mutation of a container that was captured by value")
        st.heap[ref.loc].val = newval
        st.writes += 1

    def m_list_append(self, ref, h, args, kwargs, st, e):
        (x,) = args
        if isinstance(x, Ref):
            x = self.lift(x, st)
        xl = self.lift(x, st)
        if h.val is None:
            new = V(z3.Unit(xl.t), LIST(xl.ty))
        else:
            ety = h.val.ty.args[0]
            new = V(z3.Concat(h.val.t, z3.Unit(self.term(x, ety, st))), h.val.ty)
        self._store_container(st, ref, h, new)
        yield st, None

    def m_list_insert(self, ref, h, args, kwargs, st, e):
        idx, x = args
        if not (is_concrete(idx) and idx == 0):
            raise Outside("list.insert at non-zero index")
        xl = self.lift(x, st)
        if h.val is None:
            new = V(z3.Unit(xl.t), LIST(xl.ty))
        else:
            new = V(z3.Concat(z3.Unit(self.term(x, h.val.ty.args[0], st)), h.val.t), h.val.ty)
        self._store_container(st, ref, h, new)
        yield st, None

    def m_list_pop(self, ref, h, args, kwargs, st, e):
        if h.val is None:
            yield st, Raised(ExcVal(IndexError))
            return
        n = z3.Length(h.val.t)
        at_front = bool(args) and is_concrete(args[0]) and args[0] == 0
        if args and not at_front:
            raise Outside("list.pop(i)")
        for s2, nonempty in self.branch(st, n > 0, "L%s:pop" % getattr(e, 'lineno', '?')):
            if not nonempty:
                yield s2, Raised(ExcVal(IndexError))
                continue
            hv = s2.heap[ref.loc].val
            if at_front:
                elem = hv.t[0]
                rest = z3.SubSeq(hv.t, 1, z3.Length(hv.t) - 1)
                s2.assume(hv.t == z3.Concat(z3.Unit(elem), rest))      # the list before = [popped] + rest (sequence theory)
            else:
                elem = hv.t[z3.Length(hv.t) - 1]
                rest = z3.SubSeq(hv.t, 0, z3.Length(hv.t) - 1)
                s2.assume(hv.t == z3.Concat(rest, z3.Unit(elem)))      # the list before = rest + [popped]
            self._store_container(s2, ref, s2.heap[ref.loc], V(rest, hv.ty))
            yield s2, V(elem, hv.ty.args[0])

    def m_list_clear(self, ref, h, args, kwargs, st, e):
        if h.val is not None:
            self._store_container(st, ref, h, V(z3.Empty(h.val.t.sort()), h.val.ty))
        yield st, None

    def m_set_add(self, ref, h, args, kwargs, st, e):
        (x,) = args
        xl = self.lift(x, st)
        if h.val is None:
            if xl.ty.kind == 'cls' and self.reg.root_of(xl.ty.args[0]) in self.key_projection:
                kt = self.key_projection[self.reg.root_of(xl.ty.args[0])](self, xl, st)
                base = z3.K(kt.sort(), z3.BoolVal(False))
                ty = SET(BYTES)
            else:
                base = z3.K(xl.t.sort(), z3.BoolVal(False))
                ty = SET(xl.ty)
        else:
            base, ty = h.val.t, h.val.ty
        self._store_container(st, ref, h, V(z3.Store(base, self.key_term(x, ty.args[0], st), z3.BoolVal(True)), ty))
        yield st, None

    def m_set_update(self, ref, h, args, kwargs, st, e):
        """s.update(iterable): the new set holds exactly the old members and the elements of the sequence (stated with a
        skolem witness: for a new member, an index at which the sequence holds it)"""
        (it,) = args
        if isinstance(it, Ref):
            it = self.lift(it, st)
        if isinstance(it, (list, tuple)):
            for x in it:
                for _s, _r in self.m_set_add(ref, st.heap[ref.loc], [x], {}, st, e):
                    pass
            yield st, None
            return
        if not (isinstance(it, V) and it.ty.kind == 'list') or h.val is None:
            raise Outside("set.update with %r" % (it,))
        old = h.val
        ety = old.ty.args[0]
        es = to_sort(ety, self.reg)
        new = self.fresh('updated', old.ty, st)
        j = self.fresh_term('uj', z3.IntSort())
        x = self.fresh_term('ux', es)
        n = z3.Length(it.t)
        w = self.uf('update_witness!%d' % next(self.fresh_counter), es, z3.IntSort())

        def key(t):
            return self.key_term(V(t, it.ty.args[0]), ety, st)
        ed = self.elem_defs.get(it.t.get_id())
        if ed is not None and ed[0].eq(it.t):
            # the sequence comes from a comprehension: speak about its elements directly (one hop less for the solver)
            _seq, ivar, val_t, _ety = ed
            elem = lambda k: z3.substitute(val_t, (ivar, k))
            lens = [c for c in st.pc if z3.is_eq(c) and c.arg(0).eq(z3.Length(it.t))]
            if lens:
                n = lens[-1].arg(1)
        else:
            elem = lambda k: it.t[k]
        st.assume(z3.ForAll([j], z3.Implies(z3.And(j >= 0, j < n), z3.Select(new.t, key(elem(j))))))
        st.assume(z3.ForAll([x], z3.Implies(z3.Select(old.t, x), z3.Select(new.t, x))))
        st.assume(z3.ForAll([x], z3.Implies(z3.And(z3.Select(new.t, x), z3.Not(z3.Select(old.t, x))),
                                            z3.And(w(x) >= 0, w(x) < n, key(elem(w(x))) == x))))
        self._store_container(st, ref, h, new)
        yield st, None

    def m_dict_get(self, ref, h, args, kwargs, st, e):
        if h.val is None:
            yield st, (args[1] if len(args) > 1 else None)
            return
        yield from self.v_map_get(h.val, args, kwargs, st, e)

    def m_dict_clear(self, ref, h, args, kwargs, st, e):
        if h.val is not None:
            m = h.val
            o = opt_sort(to_sort(m.ty.args[1], self.reg))
            self._store_container(st, ref, h, V(z3.K(to_sort(m.ty.args[0], self.reg), o.none), m.ty))
        yield st, None

    def m_dict_pop(self, ref, h, args, kwargs, st, e):
        """d.pop(k[, default]): the value (or the default / KeyError), and k is gone afterwards"""
        if h.val is None:
            if len(args) > 1:
                yield st, args[1]
            else:
                yield st, Raised(ExcVal(KeyError))
            return
        m = h.val
        vty = m.ty.args[1]
        o = opt_sort(to_sort(vty, self.reg))
        kt = self.key_term(args[0], m.ty.args[0], st)
        cell = z3.Select(m.t, kt)
        for s2, present in self.branch(st, o.is_some(cell), "L%s:pop-key?" % getattr(e, 'lineno', '?')):
            h2 = s2.heap[ref.loc]
            if present:
                self._store_container(s2, ref, h2, V(z3.Store(m.t, kt, o.none), m.ty))
                yield s2, V(o.val(cell), vty)
            elif len(args) > 1:
                yield s2, args[1]
            else:
                yield s2, Raised(ExcVal(KeyError))

    def m_dict_keys(self, ref, h, args, kwargs, st, e):
        yield st, IterV('keys', ref)

    def m_dict_values(self, ref, h, args, kwargs, st, e):
        yield st, IterV('values', ref)

    def m_dict_items(self, ref, h, args, kwargs, st, e):
        yield st, IterV('items', ref)

    # ---- immutable values ------------------------------------------------------------------------------------------

    def v_map_get(self, recv, args, kwargs, st, e):
        key = args[0]
        default = args[1] if len(args) > 1 else None
        vty = recv.ty.args[1]
        o = opt_sort(to_sort(vty, self.reg))
        cell = z3.Select(recv.t, self.key_term(key, recv.ty.args[0], st))
        if default is None:
            yield st, V(cell, OPT(vty))
        else:
            yield st, V(z3.If(o.is_some(cell), o.val(cell), self.term(default, vty, st)), vty)

    def v_map_set(self, recv, args, kwargs, st, e):
        k, v = args
        o = opt_sort(to_sort(recv.ty.args[1], self.reg))
        yield st, V(z3.Store(recv.t, self.key_term(k, recv.ty.args[0], st), o.some(self.term(v, recv.ty.args[1], st))), recv.ty)

    def v_map_delete(self, recv, args, kwargs, st, e):
        (k,) = args
        o = opt_sort(to_sort(recv.ty.args[1], self.reg))
        kt = self.key_term(k, recv.ty.args[0], st)
        if st.spec:
            yield st, V(z3.Store(recv.t, kt, o.none), recv.ty)
            return
        for s2, present in self.branch(st, o.is_some(z3.Select(recv.t, kt)), "L%s:key?" % getattr(e, 'lineno', '?')):
            if present:
                yield s2, V(z3.Store(recv.t, kt, o.none), recv.ty)
            else:
                yield s2, Raised(ExcVal(KeyError))

    def v_map_mutate(self, recv, args, kwargs, st, e):
        self.assumptions_used.add('A-IMMUT')
        yield st, self.new_container(st, 'dict', recv)

    def m_dict_finish(self, ref, h, args, kwargs, st, e):
        yield st, (h.val if h.val is not None else EMPTY_MAP)

    def v_map_keys(self, recv, args, kwargs, st, e):
        yield st, IterV('keys', recv)

    def v_map_values(self, recv, args, kwargs, st, e):
        yield st, IterV('values', recv)

    def v_map_items(self, recv, args, kwargs, st, e):
        yield st, IterV('items', recv)

    def v_int_to_bytes(self, recv, args, kwargs, st, e):
        length = args[0] if args else kwargs.get('length')
        order = args[1] if len(args) > 1 else kwargs.get('byteorder')
        signed = kwargs.get('signed', False)
        if order != 'big' or signed is not False or not is_concrete(length):
            raise Outside("to_bytes variant")
        if is_concrete(recv):
            try:
                r = recv.to_bytes(length, 'big')
            except OverflowError:
                yield st, Raised(ExcVal(OverflowError))
                return
            # tie the concrete result to the symbolic encoder function used elsewhere for the same width
            tb = self.uf('to_be%d' % length, z3.IntSort(), BYTES_SORT)
            self.add_func_axiom(tb(z3.IntVal(recv)) == bytes_term(r))
            yield st, r
            return
        x = self.term(recv, INT)
        for s2, ok in self.branch(st, z3.And(x >= 0, x < 256 ** length), "L%s:to_bytes" % getattr(e, 'lineno', '?')):
            if ok:
                yield s2, self.int_to_bytes(x, length, s2)
            else:
                yield s2, Raised(ExcVal(OverflowError))

    def int_to_bytes(self, x, length, st):
        """big-endian bytes of x (0 <= x < 256^length).  be/to_be are inverse on that range (A-STRUCT style axioms,
        instantiated on the occurring term)"""
        tb = self.uf('to_be%d' % length, z3.IntSort(), BYTES_SORT)
        be = self.uf('be', BYTES_SORT, z3.IntSort())
        if z3.is_app(x) and x.decl().eq(be) and x.num_args() == 1:
            # the encoding of the value decoded from an N-byte string is that string (be / to_be are inverse, A-STRUCT)
            y = x.arg(0)
            ln = self.norm_len(y, st)
            if z3.is_int_value(ln) and ln.as_long() == length:
                return V(y, BYTES)
        xs = z3.simplify(x)
        if z3.is_int_value(xs) and 0 <= xs.as_long() < 256 ** length:
            # a literal: its actual big-endian bytes, tied to the summary function
            lit = bytes_term(xs.as_long().to_bytes(length, 'big'))
            self.add_func_axiom(tb(xs) == lit)
            self.add_func_axiom(be(lit) == xs)
            return V(lit, BYTES)
        r = tb(x)
        self.add_func_axiom(z3.Length(r) == length)
        if length == 1:
            # a single byte is exactly that byte
            self.add_func_axiom(z3.Implies(z3.And(x >= 0, x < 256), r == z3.Unit(z3.Int2BV(x, 8))))
        self.add_func_axiom(z3.Implies(z3.And(x >= 0, x < 256 ** length), be(r) == x))
        self.assumptions_used.add('A-STRUCT')
        return V(r, BYTES)

    def bytes_to_int(self, b, st, widths=(32,)):
        be = self.uf('be', BYTES_SORT, z3.IntSort())
        r = be(b)
        self.add_func_axiom(r >= 0)
        for n in widths:
            self.add_func_axiom(z3.Implies(z3.Length(b) == n, z3.And(r < 256 ** n, self.uf('to_be%d' % n, z3.IntSort(), BYTES_SORT)(r) == b)))
        self.assumptions_used.add('A-STRUCT')
        return V(r, INT)

    def v_int_bit_length(self, recv, args, kwargs, st, e):
        if is_concrete(recv):
            yield st, recv.bit_length()
            return
        x = self.term(recv, INT)
        bl = self.uf('bit_length', z3.IntSort(), z3.IntSort())
        r = bl(x)
        # defining property for non-negative x: 2^(r-1) <= x < 2^r  (r = 0 iff x = 0), stated with a pow2 function
        p2 = self.uf('pow2', z3.IntSort(), z3.IntSort())
        self.add_func_axiom(z3.And(r >= 0, z3.Implies(x == 0, r == 0),
                                   z3.Implies(x > 0, z3.And(r >= 1, p2(r - 1) <= x, x < p2(r)))))
        yield st, V(r, INT)

    def v_bytes_hex(self, recv, args, kwargs, st, e):
        yield st, V(self.fresh_term('hex', z3.StringSort()), STR)

    def v_bytes_join(self, recv, args, kwargs, st, e):
        (lst,) = args
        if isinstance(lst, Ref):
            lst = self.lift(lst, st)
        if not (is_concrete(recv) and recv == b''):
            raise Outside("bytes.join with separator")
        if isinstance(lst, (list, tuple)):
            parts = [self.term(x, BYTES, st) for x in lst]
            yield st, V(self.mk_concat(*parts) if parts else z3.Empty(BYTES_SORT), BYTES)
            return
        if isinstance(lst, V) and lst.ty == LIST(BYTES):
            # a list of known length, given element by element: the concatenation of its elements
            t = lst.t
            def flatten(x):
                if z3.is_app_of(x, z3.Z3_OP_SEQ_CONCAT):
                    out = []
                    for k in range(x.num_args()):
                        out += flatten(x.arg(k))
                    return out
                if z3.is_app_of(x, z3.Z3_OP_SEQ_EMPTY):
                    return []
                return [x]
            units = flatten(t) if z3.is_app_of(t, (z3.Z3_OP_SEQ_CONCAT)) or z3.is_app_of(t, z3.Z3_OP_SEQ_UNIT) else None
            if z3.is_app_of(t, z3.Z3_OP_SEQ_EMPTY):
                yield st, V(z3.Empty(BYTES_SORT), BYTES)
                return
            if units is not None and all(z3.is_app_of(u, z3.Z3_OP_SEQ_UNIT) for u in units):
                yield st, V(self.mk_concat(*[u.arg(0) for u in units]), BYTES)
                return
            f = self.uf('bytes_join', lst.t.sort(), z3.IntSort(), BYTES_SORT)
            i = self.fresh_term('i', z3.IntSort())
            self.add_func_axiom(f(lst.t, 0) == z3.Empty(BYTES_SORT))
            self.add_func_axiom(z3.ForAll([i], z3.Implies(z3.And(0 <= i, i < z3.Length(lst.t)),
                                                          f(lst.t, i + 1) == z3.Concat(f(lst.t, i), lst.t[i])),
                                          patterns=[f(lst.t, i + 1)]))
            yield st, V(f(lst.t, z3.Length(lst.t)), BYTES)
            return
        raise Outside("bytes.join of %r" % (lst,))

    def v_str_encode(self, recv, args, kwargs, st, e):
        if is_concrete(recv):
            yield st, recv.encode(*args)
        else:
            yield st, V(self.fresh_term('enc', BYTES_SORT), BYTES)

    def v_str_format(self, recv, args, kwargs, st, e):
        yield st, V(self.fresh_term('fmt', z3.StringSort()), STR)

    def v_str_join(self, recv, args, kwargs, st, e):
        yield st, V(self.fresh_term('join', z3.StringSort()), STR)

    def v_list_index(self, recv, args, kwargs, st, e):
        raise Outside("list.index")

    def v_list_append(self, recv, args, kwargs, st, e):
        raise Outside("append on an immutable (parameter / field) list")

    def v_tuple_value(self, recv, args, kwargs, st, e):
        raise Outside("tuple attribute")

    # ---- struct ----------------------------------------------------------------------------------------------------

    FMT = {b"B": 1, b">H": 2, b">I": 4, b">Q": 8, b">B": 1}

    def struct_pack(self, args, st):
        fmt, x = args
        if fmt not in self.FMT:
            raise Outside("struct format %r" % (fmt,))
        n = self.FMT[fmt]
        if is_concrete(x):
            try:
                yield st, _struct.pack(fmt, x)
            except _struct.error:
                yield st, Raised(ExcVal(_struct.error))
            return
        t = self.term(x, INT)
        for s2, ok in self.branch(st, z3.And(t >= 0, t < 256 ** n), "struct.pack"):
            if ok:
                yield s2, self.int_to_bytes(t, n, s2)
            else:
                yield s2, Raised(ExcVal(_struct.error))

    def struct_unpack(self, args, st):
        fmt, b = args
        if fmt not in self.FMT:
            raise Outside("struct format %r" % (fmt,))
        n = self.FMT[fmt]
        bt = self.term(b, BYTES, st)
        for s2, ok in self.branch(st, z3.Length(bt) == n, "struct.unpack"):
            if ok:
                yield s2, (self.bytes_to_int(bt, s2, (n,)),)
            else:
                yield s2, Raised(ExcVal(_struct.error))

    # ---- io.BytesIO: a byte sequence with a cursor (A-IO) --------------------------------------------------------------

    def new_stream(self, args, st, data=None, pos=0):
        if data is None:
            data = self.lift(args[0], st) if args else V(z3.Empty(BYTES_SORT), BYTES)
        loc = next(self.loc_counter)
        st.heap[loc] = HeapObj('stream', fields={'data': data, 'pos': pos if isinstance(pos, V) else V(z3.IntVal(pos), INT)})
        st.writes += 1
        yield st, Ref(loc)

    def stream_moved(self, st, h, before):
        """the cursor of a stream went from `before` to its current value: for every earlier cursor position a of this
        stream, state the instance of the sequence theorem
            a <= before <= after <= len(d)  ==>  d[a:after] == d[a:before] + d[before:after]
        (valid for all values; the solvers prove it instantly in isolation but do not find the split points themselves)"""
        after = h.fields['pos'].t
        data = h.fields['data'].t
        anchors = h.fields.get('!anchors', ())
        if before.eq(after):
            return
        for a in anchors:
            if a.eq(before) or a.eq(after):
                continue
            whole = self.mk_extract(data, a, z3.simplify(after - a), st)
            left = self.mk_extract(data, a, z3.simplify(before - a), st)
            right = self.mk_extract(data, before, z3.simplify(after - before), st)
            st.assume(z3.Implies(z3.And(a >= 0, a <= before, before <= after, after <= z3.Length(data)),
                                 whole == z3.Concat(left, right)))
        if not any(a.eq(before) for a in anchors):
            h.fields['!anchors'] = tuple(anchors) + (before,)

    def m_stream_read(self, ref, h, args, kwargs, st, e):
        if not args:
            raise Outside("read() without a size")
        n = self.term(args[0], INT)
        data, pos = h.fields['data'].t, h.fields['pos'].t
        total = self.norm_len(data, st)
        enough = z3.And(n >= 0, pos + n <= total)
        for s2, ok in self.branch(st, enough, "L%s:read" % getattr(e, 'lineno', '?')):
            h2 = s2.heap[ref.loc]
            if ok:
                r = self.mk_extract(data, pos, n, s2)
                h2.fields['pos'] = V(z3.simplify(pos + n), INT)
                self.stream_moved(s2, h2, pos)
            else:
                # fewer bytes than asked for: everything that is left (read(n) returns at most n bytes)
                if not self.entails(s2, n >= 0):
                    raise Outside("read() with a possibly negative size")
                r = self.mk_extract(data, pos, z3.simplify(total - pos), s2)
                h2.fields['pos'] = V(total, INT)
                self.stream_moved(s2, h2, pos)
            s2.writes += 1
            yield s2, V(r, BYTES)

    def m_stream_write(self, ref, h, args, kwargs, st, e):
        (b,) = args
        data, pos = h.fields['data'].t, h.fields['pos'].t
        if not self.entails(st, pos == self.norm_len(data, st)):
            raise Outside("write() not at the end of the stream")
        bt = self.term(b, BYTES, st)
        h.fields['data'] = V(self.mk_concat(data, bt), BYTES)
        h.fields['pos'] = V(z3.simplify(pos + self.norm_len(bt, st)), INT)
        st.writes += 1
        yield st, V(self.norm_len(bt, st), INT)

    def m_stream_tell(self, ref, h, args, kwargs, st, e):
        yield st, h.fields['pos']

    def m_stream_seek(self, ref, h, args, kwargs, st, e):
        p = self.term(args[0], INT)
        if len(args) > 1:
            raise Outside("seek with whence")
        h.fields['pos'] = V(p, INT)
        st.writes += 1
        yield st, V(p, INT)

    def m_stream_getvalue(self, ref, h, args, kwargs, st, e):
        yield st, h.fields['data']

    def enumerate_map(self, m, what, st):
        """iteration over a finite map (A-ITER): some sequence of its keys, each key exactly once.  The facts stated are:
        every visited element is a key, and no key is visited twice (pointwise at use via element definitions; the
        completeness direction - every key is visited - is stated with a skolem index function)."""
        if isinstance(m, Ref):
            m = self.lift(m, st)
        if not (isinstance(m, V) and m.ty.kind in ('map', 'set')):
            raise Outside("enumeration of %r" % (m,))
        if what != 'keys':
            raise Outside("enumeration of a map's %s" % what)
        kty = m.ty.args[0]
        ks = to_sort(kty, self.reg)
        order = self.fresh('keys', LIST(kty), st)
        i = self.fresh_term('ki', z3.IntSort())
        j = self.fresh_term('kj', z3.IntSort())
        n = z3.Length(order.t)
        present = (lambda t: opt_sort(to_sort(m.ty.args[1], self.reg)).is_some(z3.Select(m.t, t))) if m.ty.kind == 'map' \
            else (lambda t: z3.Select(m.t, t))
        st.assume(z3.ForAll([i], z3.Implies(z3.And(i >= 0, i < n), present(order.t[i]))))
        st.assume(z3.ForAll([i, j], z3.Implies(z3.And(i >= 0, i < j, j < n), order.t[i] != order.t[j])))
        idx = self.uf('key_index!%d' % next(self.fresh_counter), ks, z3.IntSort())
        kk = self.fresh_term('kk', ks)
        st.assume(z3.ForAll([kk], z3.Implies(present(kk), z3.And(idx(kk) >= 0, idx(kk) < n, order.t[idx(kk)] == kk))))
        self.assumptions_used.add('A-ITER')
        return order
