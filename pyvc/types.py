"""Type descriptors and their SMT sorts.

Python value            SMT sort
int                     Int (mathematical, as in Python)
bool                    Bool
bytes                   Seq(BitVec 8)
str                     String
Optional[T]             datatype Opt_T = none | some(val)
List[T]/Sequence[T]     Seq(T)
Set[T]                  Array(T, Bool)
Dict/Map[K, V]          Array(K, Opt_V)         (extensional: equal maps are equal terms)
Tuple[...]              datatype
value class C           datatype generated from the class's __init__ (one constructor per concrete subclass of a
                        hierarchy root)
"""
from __future__ import annotations
from dataclasses import dataclass
import typing
import z3


class Outside(Exception):
    """A construct outside the interpreted subset (never a verdict about the property: exit 3)."""


@dataclass(frozen=True)
class T:
    kind: str
    args: tuple = ()

    def __repr__(self):
        if not self.args:
            return self.kind
        return "%s[%s]" % (self.kind, ",".join(map(repr, self.args)))


INT = T('int')
BOOL = T('bool')
BYTES = T('bytes')
STR = T('str')
NONE = T('none')
ANY = T('any')          # only for values the executor never turns into terms (loggers, sockets)


def OPT(t): return t if t.kind == 'opt' else T('opt', (t,))
def LIST(t): return T('list', (t,))
def SET(t): return T('set', (t,))
def MAP(k, v): return T('map', (k, v))
def TUPLE(*ts): return T('tuple', tuple(ts))
def CLS(name): return T('cls', (name,))
def ARR(k, v): return T('arr', (k, v))      # total array (ghost state), no option wrapping


BV8 = z3.BitVecSort(8)
BYTES_SORT = z3.SeqSort(BV8)

_sort_cache = {}
_opt_cache = {}
_tuple_cache = {}


def sort_name(s):
    n = str(s)
    for a, b in ((' ', ''), ('(', '_'), (')', ''), (',', '_')):
        n = n.replace(a, b)
    return n


class OptSort:
    """option datatype over a z3 sort"""

    def __init__(self, inner):
        n = sort_name(inner)
        d = z3.Datatype('Opt_' + n)
        d.declare('none_' + n)
        d.declare('some_' + n, ('val_' + n, inner))
        self.sort = d.create()
        self.none = getattr(self.sort, 'none_' + n)
        self.some = getattr(self.sort, 'some_' + n)
        self.val = getattr(self.sort, 'val_' + n)
        self.is_some = getattr(self.sort, 'is_some_' + n)
        self.is_none = getattr(self.sort, 'is_none_' + n)


def opt_sort(inner) -> OptSort:
    k = sort_name(inner)
    if k not in _opt_cache:
        _opt_cache[k] = OptSort(inner)
    return _opt_cache[k]


class TupleSort:
    def __init__(self, sorts):
        n = "Tup_" + "_".join(sort_name(s) for s in sorts)
        d = z3.Datatype(n)
        d.declare('mk_' + n, *[('f%d_%s' % (i, n), s) for i, s in enumerate(sorts)])
        self.sort = d.create()
        self.mk = getattr(self.sort, 'mk_' + n)
        self.proj = [getattr(self.sort, 'f%d_%s' % (i, n)) for i in range(len(sorts))]


def tuple_sort(sorts) -> TupleSort:
    k = tuple(sort_name(s) for s in sorts)
    if k not in _tuple_cache:
        _tuple_cache[k] = TupleSort(sorts)
    return _tuple_cache[k]


class ClassInfo:
    """One concrete value class: its fields (from __init__) and its constructor in the root's datatype."""

    def __init__(self, pyclass, root_name, fields):
        self.pyclass = pyclass
        self.name = pyclass.__name__
        self.root = root_name
        self.fields = fields        # list of (name, T)
        self.ctor = None
        self.acc = {}
        self.recog = None


class Registry:
    """Value classes known to the executor. Built by contracts/types via `declare`, finished by `build`."""

    def __init__(self):
        self.classes = {}       # name -> ClassInfo
        self.roots = {}         # root name -> [ClassInfo]
        self.sorts = {}         # root name -> z3 datatype sort
        self.by_py = {}         # python class -> ClassInfo  (concrete) / root name (abstract roots)
        self.abstract = {}      # python class (abstract root) -> root name

    def declare(self, pyclass, fields, root=None):
        root_name = (root or pyclass).__name__
        ci = ClassInfo(pyclass, root_name, fields)
        self.classes[ci.name] = ci
        self.roots.setdefault(root_name, []).append(ci)
        self.by_py[pyclass] = ci
        if root is not None and root is not pyclass:
            self.abstract[root] = root_name
        return ci

    def build_root(self, root_name):
        if root_name in self.sorts:
            return self.sorts[root_name]
        cis = self.roots[root_name]
        d = z3.Datatype(root_name)
        for ci in cis:
            # field sorts must exist already (no recursion among value classes)
            d.declare(ci.name + '!mk', *[('%s!%s' % (ci.name, f), to_sort(t, self)) for f, t in ci.fields])
        s = d.create()
        self.sorts[root_name] = s
        for ci in cis:
            ci.ctor = getattr(s, ci.name + '!mk')
            ci.recog = getattr(s, 'is_' + ci.name + '!mk')
            for f, _t in ci.fields:
                ci.acc[f] = getattr(s, '%s!%s' % (ci.name, f))
        return s

    def root_of(self, name):
        if name in self.classes:
            return self.classes[name].root
        if name in self.roots:
            return name
        raise Outside("unknown value class %s" % name)

    def concrete(self, root_name):
        return self.roots[root_name]


def to_sort(t: T, reg: Registry):
    k = t.kind
    if k == 'int':
        return z3.IntSort()
    if k == 'bool':
        return z3.BoolSort()
    if k == 'bytes':
        return BYTES_SORT
    if k == 'str':
        return z3.StringSort()
    if k == 'opt':
        return opt_sort(to_sort(t.args[0], reg)).sort
    if k == 'list':
        return z3.SeqSort(to_sort(t.args[0], reg))
    if k == 'set':
        return z3.ArraySort(to_sort(t.args[0], reg), z3.BoolSort())
    if k == 'map':
        return z3.ArraySort(to_sort(t.args[0], reg), opt_sort(to_sort(t.args[1], reg)).sort)
    if k == 'arr':
        return z3.ArraySort(to_sort(t.args[0], reg), to_sort(t.args[1], reg))
    if k == 'tuple':
        return tuple_sort([to_sort(a, reg) for a in t.args]).sort
    if k == 'cls':
        return reg.build_root(reg.root_of(t.args[0]))
    if k == 'none':
        return opt_sort(z3.IntSort()).sort      # a unit-ish placeholder; never inspected
    raise Outside("no sort for type %r" % (t,))


def from_annotation(a, reg: Registry, globalns=None) -> T:
    """typing annotation object -> T"""
    import collections.abc
    if a is None or a is type(None):
        return NONE
    if isinstance(a, str):
        try:
            a = eval(a, dict(globalns or {}, **typing.__dict__))
        except Exception:
            if a in reg.classes or a in reg.roots:
                return CLS(a)
            raise Outside("cannot resolve annotation %r" % a)
    if a is int:
        return INT
    if a is bool:
        return BOOL
    if a is bytes:
        return BYTES
    if a is str:
        return STR
    if a is typing.Any:
        return ANY
    origin = typing.get_origin(a)
    args = typing.get_args(a)
    if origin is typing.Union:
        non_none = [x for x in args if x is not type(None)]
        if len(non_none) == 1:
            return OPT(from_annotation(non_none[0], reg, globalns))
        ts = [from_annotation(x, reg, globalns) for x in non_none]
        # Union[Block, BlockSummary]: callers must give the precise type in the contract
        return ts[0]
    if origin in (list, typing.List, collections.abc.Sequence):
        return LIST(from_annotation(args[0], reg, globalns))
    if origin in (set, frozenset, collections.abc.Set):
        return SET(from_annotation(args[0], reg, globalns))
    if origin in (dict, collections.abc.Mapping):
        return MAP(from_annotation(args[0], reg, globalns), from_annotation(args[1], reg, globalns))
    if origin is tuple:
        return TUPLE(*[from_annotation(x, reg, globalns) for x in args])
    try:
        import immutables
        if origin is immutables.Map or a is immutables.Map:
            return MAP(from_annotation(args[0], reg, globalns), from_annotation(args[1], reg, globalns))
    except ImportError:
        pass
    if isinstance(a, type):
        if a in reg.by_py:
            return CLS(a.__name__)
        if a in reg.abstract:
            return CLS(reg.abstract[a])
        return ANY
    return ANY
