"""Function verification: contract application at call sites, obligation generation per path, discharge."""
from __future__ import annotations
import ast
import hashlib
import importlib
import inspect
import os
import subprocess
import tempfile
import time

import z3

from .types import (T, INT, BOOL, BYTES, STR, NONE, ANY, OPT, LIST, SET, MAP, TUPLE, CLS, Outside, to_sort, opt_sort,
                    from_annotation)
from .engine import (V, Ref, HeapObj, ExcVal, Raised, Closure, Frame, State, Obligation, is_concrete)
from .interp import Ctl, _is_true
from .stmts import Stmts, AnyException


class StateShape:
    """symbolic shape of a mutable object parameter: class + field types (nested shapes allowed)"""

    def __init__(self, pyclass, **fields):
        self.pyclass = pyclass
        self.fields = fields


class Verifier(Stmts):

    def __init__(self, registry, cset, **kw):
        super().__init__(registry, cset.contracts, cset.ghosts, **kw)
        self.cset = cset
        self.externals.update(cset.externals)
        self._ax_seen = set()
        self.loop_index = {}
        self.force_inline = set()
        self.path_steps = 0
        self.functions = {}         # qualname -> info dict for the evidence
        self.structural_classes = set()
        self.key_projection = {}
        self.ctor_param_fields = {}
        self.vacuity = []
        self.external_result_types = {'recv': BYTES, 'send': INT}
        self._pyeq_defined = set()
        self.opaque_eq_classes = set()
        self.used_contracts = set()
        self.singletons = {}        # id(real module-level object) -> (object, StateShape): modelled as a heap object
        self.singleton_refs = {}
        self.ghost_shape = None     # StateShape of the ghost-state object `GS`
        self.ghost_ref = None
        self._sym_cache = {}
        self._ghost_defs = set()
        self.spec_globals = {'ZERO32': bytes(32)}
        from .engine import EMPTY_MAP
        self.spec_globals['EMPTY_UTXO'] = EMPTY_MAP
        self.spec_globals['EMPTY_MAP'] = EMPTY_MAP
        self.spec_globals['INTS'] = 'ALL-INTS'
        # module-level functions under contract are callable in specifications by their short name
        for q in cset.contracts:
            parts = q.split('.')
            if len(parts) >= 3 and parts[-2][:1].islower():
                try:
                    self.spec_globals.setdefault(parts[-1], self.resolve(q))
                except Exception:
                    pass
        if 'OutputReference' in registry.classes:
            self.spec_globals['UTXO_MAP'] = MAP(CLS('OutputReference'), CLS('Output'))
        self.spec_globals['KEYT'] = TUPLE(STR, INT, STR)        # key of the peer book: (host, port, direction)
        self.spec_globals['ADDRT'] = TUPLE(STR, INT)
        for ci in registry.classes.values():
            self.spec_globals[ci.name] = ci.pyclass
        for pyc, rn in registry.abstract.items():
            self.spec_globals[rn] = pyc

    # ------------------------------------------------------------------------------------------------ resolution

    @staticmethod
    def resolve(qualname):
        # "module.Class.method#VIEW": a second contract (view) of the same function, verified under its own name
        parts = qualname.split('#')[0].split('.')
        for k in range(len(parts) - 1, 0, -1):
            modname = '.'.join(parts[:k])
            try:
                mod = importlib.import_module(modname)
            except ImportError:
                continue
            obj = mod
            for p in parts[k:]:
                obj = inspect.getattr_static(obj, p) if inspect.isclass(obj) else getattr(obj, p)
                if isinstance(obj, (classmethod, staticmethod)):
                    obj = obj.__func__
                if isinstance(obj, property):
                    obj = obj.fget
            return obj
        raise Outside("cannot resolve %s" % qualname)

    def index_loops(self, qualname, node):
        idx = {}
        k = 0
        for n in ast.walk(node):
            pass
        # source order
        loops = [n for n in ast.walk(node) if isinstance(n, (ast.For, ast.While))]
        loops.sort(key=lambda n: (n.lineno, n.col_offset))
        for k, n in enumerate(loops):
            idx[(n.lineno, n.col_offset)] = k
        self.loop_index[qualname] = idx
        return len(loops)

    # ------------------------------------------------------------------------------------------------ spec evaluation

    def spec_eval(self, text, st, extra=None):
        node = ast.parse(text.strip(), mode='eval').body
        sub = st.fork()
        sub.spec = True
        sub.stack.append(Frame(dict(extra or {}), len(sub.stack) - 1 if sub.stack else None,
                               sub.stack[-1].globs if sub.stack else {}, sub.stack[-1].qualname if sub.stack else 'spec'))
        outs = list(self.ev(node, sub))
        if len(outs) != 1 or isinstance(outs[0][1], Raised):
            raise Outside("specification expression is not a single pure value: %s" % text)
        s2, v = outs[0]
        # assumptions added while evaluating the spec (definitions of fresh helper terms) flow back
        for c in s2.pc[len(st.pc):]:
            st.pc.append(c)
        return v, s2

    def spec_bool(self, text, st, extra=None):
        v, s2 = self.spec_eval(text, st, extra)
        return self.b(self.truth(v, s2))

    def spec_value(self, text, st, extra=None):
        v, s2 = self.spec_eval(text, st, extra)
        return v

    def with_lets(self, con, st, extra):
        env = dict(extra)
        for name, text in con.lets:
            val = self.spec_value(text, st, env)
            if isinstance(val, Ref) and st.heap[val.loc].kind in ('list', 'set', 'dict') and st.heap[val.loc].val is not None:
                val = st.heap[val.loc].val      # a let names the VALUE the container had when the let was evaluated
            env[name] = val
        return env

    # ------------------------------------------------------------------------------------------------ parameters

    def param_type(self, con, func, node, name):
        if con is not None and name in con.param_types:
            return con.param_types[name]
        for a in node.args.args:
            if a.arg == name and a.annotation is not None:
                ann = ast.unparse(a.annotation)
                if ann in ('BinaryIO', 'typing.BinaryIO', 'BytesIO'):
                    return ('stream',)
                return from_annotation(ann, self.reg, func.__globals__)
        if name in ('self', 'cls') and '.' in func.__qualname__:
            owner = func.__qualname__.split('.')[-2]
            if owner in self.reg.classes or owner in self.reg.roots:
                return CLS(owner)
        raise Outside("no type for parameter %s of %s" % (name, getattr(func, '__qualname__', func)))

    def make_symbolic(self, name, ty, st):
        if isinstance(ty, StateShape):
            loc = next(self.loc_counter)
            fields = {}
            st.heap[loc] = HeapObj('obj', fields=fields, cls=ty.pyclass)
            st.heap[loc].field_types = {f: t for f, t in ty.fields.items() if isinstance(t, T)}
            for f, fty in ty.fields.items():
                fields[f] = self.make_symbolic("%s.%s" % (name, f), fty, st)
            return Ref(loc)
        if isinstance(ty, tuple) and ty and ty[0] == 'stream':
            # a binary stream parameter: arbitrary contents, cursor anywhere inside
            data = self.fresh(name + '.data', BYTES)
            pos = self.fresh(name + '.pos', INT)
            st.assume(z3.And(pos.t >= 0, pos.t <= z3.Length(data.t)))
            outs = list(self.new_stream([], st, data=data, pos=pos))
            return outs[0][1]
        if isinstance(ty, tuple) and ty and ty[0] == 'mutable':
            kind, vty = ty[1], ty[2]
            v = self.fresh(name, vty)
            self.assume_valid(v, st)
            return self.new_container(st, kind, v)
        if isinstance(ty, tuple) and ty and ty[0] == 'const':
            return ty[1]
        if ty.kind == 'any':
            return V(None, ANY)
        v = self.fresh(name, ty)
        self.assume_valid(v, st)
        return v

    # ------------------------------------------------------------------------------------------------ verify one function

    def verify_function(self, qualname, prop=None):
        con = self.contracts[qualname]
        func = self.resolve(qualname)
        node, src = self.func_ast(func)
        nloops = self.index_loops(qualname, node)
        self.current = qualname
        self.func_axioms = []
        self._ax_seen = set()
        info = {'qualname': qualname, 'file': inspect.getsourcefile(func), 'line': node.lineno,
                'sha256': hashlib.sha256(src.encode()).hexdigest(), 'loops': nloops, 'paths': 0,
                'normal_paths': 0, 'raising_paths': 0}
        self.functions[qualname] = info
        st = State()
        st.stack.append(Frame({}, None, func.__globals__, qualname))
        names = [a.arg for a in node.args.args]
        vals = {}
        self.singleton_refs = {}
        for oid, (obj, shape) in self.singletons.items():
            self.singleton_refs[oid] = self.make_symbolic(type(obj).__name__, shape, st)
        self.ghost_ref = self.make_symbolic('GS', self.ghost_shape, st) if self.ghost_shape is not None else None
        for n in names:
            ty = self.param_type(con, func, node, n)
            vals[n] = self.make_symbolic(n, ty, st)
        st.frame.vars.update(vals)
        env = self.with_lets(con, st, {})
        for lname, _t in con.lets:
            if lname in st.frame.vars:
                raise Outside("contract let-name %s clashes with a parameter of %s" % (lname, qualname))
            st.frame.vars[lname] = env[lname]       # ghost local: visible to loop invariants and post-conditions
        for text in con.requires_:
            st.assume(self.spec_bool(text, st, env))
        # vacuity: preconditions + type invariants satisfiable
        r, _ = self.check_sat(st.pc, 10000)
        self.vacuity.append((qualname + ":requires-satisfiable", r))
        if r == z3.unsat:
            raise Outside("contradictory precondition / type invariant for %s" % qualname)
        old = st.fork()
        st.old = old
        st.frame.vars.pop('__dummy__', None)
        pre_frame_vars = dict(st.frame.vars)
        self._entry_params = dict(vals)
        # execute the body in a callee frame so that parameters stay visible to the post-condition under their names
        st.depth = 0
        outcomes = []
        body_state = st
        t0 = time.time()
        for s, ctl in self.exec_block(node.body, body_state):
            info['paths'] += 1
            if ctl is None or ctl.kind == 'return':
                info['normal_paths'] += 1
                result = None if ctl is None else ctl.val
                self.check_normal(con, qualname, s, result, pre_frame_vars)
                self.check_frame(con, qualname, s)
                if getattr(s, 'locks_held', 0):
                    self.check_locks(qualname, s)
            elif ctl.kind == 'raise':
                info['raising_paths'] += 1
                self.check_raise(con, qualname, s, ctl.val, pre_frame_vars)
                self.check_frame(con, qualname, s)
                if getattr(s, 'locks_held', 0):
                    self.check_locks(qualname, s)
            else:
                raise Outside("loop control escaping function %s" % qualname)
        info['exec_seconds'] = round(time.time() - t0, 3)
        if info['normal_paths'] == 0 and con.ensures_ and not getattr(con, 'allow_no_normal', False):
            self.vacuity.append((qualname + ":normal-path-reachable", z3.unsat))
        # every clause of the contract yields an obligation name even if no path of that kind exists, so that the set
        # of names depends on the contract only (the baseline detects vacuous runs, not code changes)
        have = {ob.name for ob in self.obligations}
        empty = State()
        for k, text in enumerate(con.ensures_ + con.on_any_):
            n = "%s:ensures[%d]" % (qualname, k)
            if n not in have:
                self.oblige(empty, z3.BoolVal(True), n, text + " (no normal path)")
        for k, text in enumerate(con.raises_only_if_):
            n = "%s:raises_only_if[%d]" % (qualname, k)
            if n not in have:
                self.oblige(empty, z3.BoolVal(True), n, text + " (no raising path)")
        for k, text in enumerate(con.on_raise_ + con.on_any_):
            n = "%s:on_raise[%d]" % (qualname, k)
            if n not in have:
                self.oblige(empty, z3.BoolVal(True), n, text + " (no raising path)")
        if qualname + ":frame" not in have:
            self.oblige(empty, z3.BoolVal(True), qualname + ":frame", "no write to a value object on any path")
        self.current = None
        return info

    def post_env(self, con, st, result, pre_vars):
        env = {}
        # parameters as they were on entry are available as old(x); current bindings are in the frame
        env['result'] = result
        # lets are entry values: evaluate them in the pre-state (parameters may have been re-bound by the body)
        if st.old is not None:
            pre = st.old.fork()
            pre.pc = list(st.pc)        # this path's conditions may decide if-then-else terms of the lets statically
            pre.old = None
        else:
            pre = st
        lets = self.with_lets(con, pre, {})
        lets.update(env)
        return lets

    def check_normal(self, con, qn, st, result, pre_vars):
        env = self.post_env(con, st, result, pre_vars)
        for k, text in enumerate(con.ensures_ + con.on_any_):
            goal = self.spec_bool(text, st, env)
            self.oblige(st, goal, "%s:ensures[%d]" % (qn, k), text)
        if not (con.ensures_ + con.on_any_):
            self.oblige(st, z3.BoolVal(True), "%s:returns" % qn, "normal path")

    def check_raise(self, con, qn, st, exc, pre_vars):
        env = self.post_env(con, st, None, pre_vars)
        if con.raises_allowed is not None:
            ok = exc.cls is not AnyException and any(issubclass(exc.cls, c) for c in con.raises_allowed)
            if not ok:
                self.oblige(st, z3.BoolVal(False), "%s:raises-only-declared" % qn,
                            "undeclared %s raised at line %s" % (exc.cls.__name__, exc.origin))
        for k, text in enumerate(con.raises_only_if_):
            goal = self.spec_bool(text, st, env)
            self.oblige(st, goal, "%s:raises_only_if[%d]" % (qn, k), "%s (raised %s at line %s)" % (text, exc.cls.__name__, exc.origin))
        for k, text in enumerate(con.on_raise_ + con.on_any_):
            goal = self.spec_bool(text, st, env)
            self.oblige(st, goal, "%s:on_raise[%d]" % (qn, k), "%s (raised %s at line %s)" % (text, exc.cls.__name__, exc.origin))
        if not (con.raises_only_if_ or con.on_raise_ or con.on_any_ or con.raises_allowed is not None):
            self.oblige(st, z3.BoolVal(True), "%s:raises" % qn, "raising path")

    def modifies_targets(self, con, st, env=None):
        """(set of (loc, field), set of container locs) a contract allows to change, evaluated in state st"""
        fields, conts = set(), set()
        for path in (con.modifies_ or []):
            node = ast.parse(path, mode='eval').body
            if isinstance(node, ast.Attribute):
                try:
                    objv = self.spec_value(ast.unparse(node.value), st, env)
                except Outside:
                    continue
                if isinstance(objv, Ref):
                    fields.add((objv.loc, node.attr))
                    cur = st.heap[objv.loc].fields.get(node.attr) if st.heap[objv.loc].fields is not None else None
                    if isinstance(cur, Ref):
                        conts.add(cur.loc)
            else:
                try:
                    val = self.spec_value(path, st, env)
                except Outside:
                    continue
                if isinstance(val, Ref):
                    conts.add(val.loc)
                    h = st.heap[val.loc]
                    if h.kind == 'obj' and h.fields is not None:
                        for f in h.fields:
                            fields.add((val.loc, f))
        return fields, conts

    def check_locks(self, qn, st):
        held = getattr(st, 'locks_held', 0)
        self.oblige(st, z3.BoolVal(held == 0), qn + ":lock-released",
                    "a lock acquired with .acquire() is still held (%d) when this path ends" % held)

    def check_frame(self, con, qn, st):
        """heap frame: every field / container of the pre-state heap that the contract does not list under modifies has
        the value it had on entry (on every path, also the raising ones)"""
        old = st.old
        if old is None:
            return
        fields, conts = self.modifies_targets(con, old)
        for loc, h0 in old.heap.items():
            h1 = st.heap.get(loc)
            if h1 is None:
                continue
            if h0.kind == 'obj' and h0.fields is not None:
                for f, v0 in h0.fields.items():
                    if (loc, f) in fields:
                        continue
                    v1 = h1.fields.get(f)
                    self._frame_compare(qn, st, v0, v1, "field %s of %s" % (f, getattr(h0.cls, '__name__', 'object')))
            elif h0.kind in ('list', 'set', 'dict'):
                if loc in conts:
                    continue
                self._frame_compare(qn, st, h0.val, h1.val, "contents of a %s" % h0.kind)
            elif h0.kind == 'stream':
                if loc in conts:
                    continue
                for f in ('data', 'pos'):
                    self._frame_compare(qn, st, h0.fields[f], h1.fields[f], "%s of a stream" % f)

    def _frame_compare(self, qn, st, v0, v1, what):
        if v0 is v1:
            return
        if isinstance(v0, V) and isinstance(v1, V):
            if v0.t is None or v1.t is None or v0.t.eq(v1.t):
                return
            self.oblige(st, v0.t == v1.t, qn + ":frame", what + " is not listed under modifies but may change")
            return
        if isinstance(v0, Ref) and isinstance(v1, Ref):
            if v0.loc == v1.loc:
                return
            self.oblige(st, z3.BoolVal(False), qn + ":frame", what + " is re-bound to another object")
            return
        try:
            same = (v0 == v1)
        except Exception:
            same = False
        if same is True:
            return
        self.oblige(st, z3.BoolVal(False), qn + ":frame", what + " changes but is not listed under modifies")

    # ------------------------------------------------------------------------------------------------ call sites

    def apply_contract(self, con, func, args, kwargs, st):
        node, _src = self.func_ast(func)
        qn = con.qualname
        self.used_contracts.add(qn)
        vals = self.bind_params(node, args, kwargs, st, qn)
        caller = st.frame.qualname
        # an Optional argument for a parameter declared non-Optional: only when it is known not to be None
        for a_ in node.args.args:
            val = vals.get(a_.arg)
            if isinstance(val, V) and val.ty.kind == 'opt' and a_.annotation is not None:
                try:
                    pty = self.param_type(con, func, node, a_.arg)
                except Outside:
                    continue
                if isinstance(pty, T) and pty.kind not in ('opt', 'any') and pty == val.ty.args[0]:
                    o = opt_sort(to_sort(pty, self.reg))
                    if st.spec or self.entails(st, o.is_some(val.t)):
                        vals[a_.arg] = V(o.val(val.t), pty)
                    else:
                        raise Outside("possibly-None argument %s passed to %s" % (a_.arg, qn))
        # intermediate assertions the caller's contract places at this call site
        ccon = self.contracts.get(caller)
        if ccon is not None and not st.spec and ccon.before_call_.get(qn.split('.')[-1]):
            for k, text in enumerate(ccon.before_call_[qn.split('.')[-1]]):
                env0 = {}
                for lname, _t in ccon.lets:
                    if lname in st.frame.vars:
                        env0[lname] = st.frame.vars[lname]
                goal = self.spec_bool(text, st, env0)
                self.oblige(st, goal, "%s:before[%s][%d]" % (caller, qn.split('.')[-1], k), text)
                st.assume(goal)
        # evaluate the contract in a frame that sees only the callee's parameters
        cst = st
        cst.stack.append(Frame(dict(vals), None, func.__globals__, qn + ':contract'))
        try:
            env = self.with_lets(con, cst, {})
            if not st.spec:
                for k, text in enumerate(con.requires_):
                    goal = self.spec_bool(text, cst, env)
                    self.oblige(cst, goal, "%s:call[%s]:requires[%d]" % (caller, qn.split('.')[-1], k), text)
                if con.measure_ and qn == self.current:
                    # a recursive call through the function's own contract: the measure decreases (termination)
                    m_callee = self.term(self.spec_value(con.measure_, cst, env), INT)
                    outer = st.stack[0] if st.stack else None
                    cst.stack.append(Frame(dict(self._entry_params), None, func.__globals__, qn + ':measure'))
                    try:
                        m_caller = self.term(self.spec_value(con.measure_, cst, {}), INT)
                    finally:
                        cst.stack.pop()
                    self.oblige(cst, z3.And(m_callee >= 0, m_callee < m_caller),
                                "%s:call[%s]:decreases" % (caller, qn.split('.')[-1]), con.measure_)
            pre = cst.fork()
            # result
            rty = con.returns_type
            if rty is None and node.returns is not None:
                ann = ast.unparse(node.returns)
                if ann != 'None':
                    rty = from_annotation(ann, self.reg, func.__globals__)
            if rty is None or (isinstance(rty, T) and rty.kind == 'none'):
                result = None
            elif con.uf_name:
                result = self.uf_result(con, rty, vals, node, cst)
            else:
                result = self.fresh('ret_' + qn.split('.')[-1], rty, cst)
            outs = []
            if con.uf_name is None or not st.spec:
                pass
            # normal outcome
            normal = cst if st.spec else cst.fork()
            normal.old = pre
            if con.effect_fn is not None and not st.spec:
                con.effect_fn(self, normal, vals)
            elif con.modifies_:
                self.havoc_paths(con, normal, env)
            nenv = dict(env)        # lets are entry values: evaluated before the havoc above
            nenv['result'] = result
            feasible = True
            if st.spec and con.spec_facts:
                # inside a specification nothing checked the callee's precondition: its facts hold under it
                pre_ok = self.b(self._and([self.spec_bool(t, normal, nenv) for t in con.requires_]))
                for text in con.ensures_ + con.on_any_:
                    normal.assume(z3.Implies(pre_ok, self.b(self.spec_bool(text, normal, nenv))))
            elif not st.spec and con.effect_fn is None:
                # inside a specification a summarised call is just the summary term: the callee's post-conditions are
                # brought in explicitly where a lemma needs them (use_contract), not silently at every mention
                for text in con.ensures_ + con.on_any_:
                    # without a normal-return predicate the post-conditions themselves are what tells outcomes apart
                    normal.assume(self.spec_bool(text, normal, nenv), decision=not con.predicate_)
                if con.predicate_ and not st.spec:
                    normal.assume(self.predicate_term(con, vals, normal), decision=True)
            if isinstance(result, V) and result.ty.kind != 'any' and not st.spec:
                self.assume_valid(result, normal)
            if not st.spec and con.modifies_:
                self.resolve_stream_fields(normal, len(pre.pc))
            normal.old = st.old
            if st.spec:
                outs.append((normal, result))
            else:
                if not con.never_raises:
                    exc_classes = self.raise_classes(con)
                    for ecls, when in exc_classes:
                        es = cst.fork()
                        es.old = pre
                        if con.modifies_:
                            self.havoc_paths(con, es, env)      # the callee may have written before it raised
                        eenv = dict(env)
                        eenv['result'] = None
                        if when:
                            es.assume(self.spec_bool(when, es, eenv), decision=True)
                        for text in con.raises_only_if_ + con.on_raise_ + con.on_any_:
                            es.assume(self.spec_bool(text, es, eenv), decision=not con.predicate_)
                        if con.predicate_:
                            es.assume(z3.Not(self.predicate_term(con, vals, es)), decision=True)
                        es.old = st.old
                        if self.feasible(es):
                            es.trace.append("%s raises %s" % (qn.split('.')[-1], ecls.__name__))
                            outs.append((es, Raised(ExcVal(ecls, (), 'callee ' + qn))))
                if self.feasible(normal):
                    normal.trace.append("%s returns" % qn.split('.')[-1])
                    outs.insert(0, (normal, result))
        finally:
            pass
        for s, r in outs:
            # drop the contract frame
            assert s.stack[-1].qualname == qn + ':contract'
            s.stack.pop()
            yield s, r

    def predicate_term(self, con, vals, st):
        name, args = con.predicate_
        ts = [self.term(vals[a], None, st) for a in args]
        f = self.uf('pred_' + name, *([t.sort() for t in ts] + [z3.BoolSort()]))
        return f(*ts)

    def contract_axiom(self, qualname, st=None):
        """forall params. requires and 'returns normally'(params) ==> ensures(params): what a *verified* contract with a
        normal-return predicate lets a lemma use (sound only because the function's own obligations are discharged in
        the same check, and the function is deterministic)"""
        con = self.contracts[qualname]
        func = self.resolve(qualname)
        node, _ = self.func_ast(func)
        names = [a.arg for a in node.args.args]
        sub = State()
        sub.stack.append(Frame({}, None, func.__globals__, qualname + ':axiom'))
        consts = []
        vals = {}
        for n in names:
            ty = self.param_type(con, func, node, n)
            v = self.fresh('ax_' + n, ty)
            vals[n] = v
            consts.append(v.t)
        sub.frame.vars.update(vals)
        env = self.with_lets(con, sub, {})
        for lname, _t in con.lets:
            sub.frame.vars[lname] = env[lname]
        hyps = [self.validity(vals[n], sub) for n in names]
        hyps += [self.spec_bool(t, sub, env) for t in con.requires_]
        hyps.append(self.predicate_term(con, vals, sub))
        concl = [self.spec_bool(t, sub, env) for t in con.ensures_]
        pred = self.predicate_term(con, vals, sub)
        hyp = self.b(self._and(hyps + list(sub.pc)))
        # one axiom per clause, so that a clause that is itself universally quantified can be flattened and instantiated
        return [z3.ForAll(consts, z3.Implies(hyp, self.b(cl)), patterns=[pred]) for cl in concl]

    def quick_prove(self, hyps, goal, timeout_ms=3000):
        from .inst import conjuncts
        goal = self.b(goal)
        parts = [c for c in conjuncts(goal) if not z3.is_true(c)]
        flat = []
        for h in hyps:
            flat.extend(conjuncts(h))
        if all(any(c.eq(h) for h in flat) for c in parts):
            return True
        # conjunct by conjunct: equal to a hypothesis, or a consequence of ONE hypothesis (e.g. alpha-variants)
        remaining = []
        for c in parts:
            if any(c.eq(h) for h in flat):
                continue
            if self.hard_for_pruning(c):
                cands = [h for h in flat if z3.is_quantifier(h)]
                if not any(self._try([h], c, 300)[0] == z3.unsat for h in cands):
                    remaining.append(c)
            else:
                remaining.append(c)
        if not remaining:
            return True
        goal = z3.And(*remaining) if len(remaining) > 1 else remaining[0]
        # only the quantifier-free hypotheses first (fast), then everything
        qf = [h for h in flat if not self.hard_for_pruning(h)]
        r0, _ = self._try(qf, goal, 1000)
        if r0 == z3.unsat:
            return True
        r, _ = self._try(hyps, goal, 1000)
        if r == z3.unsat:
            return True
        try:
            from .inst import instantiate
            gh, core, _n, _left = instantiate(hyps, goal, rounds=1)
            r2, _ = self._try(gh, core, timeout_ms)
            return r2 == z3.unsat
        except z3.Z3Exception:
            return False

    def have(self, st, text_or_formula, name, env=None, terms=()):
        """lemma step: prove a fact from the current state (named obligation), then keep it as a hypothesis"""
        f = self.spec_bool(text_or_formula, st, env) if isinstance(text_or_formula, str) else text_or_formula
        self.oblige(st, f, name, text_or_formula if isinstance(text_or_formula, str) else str(f)[:200], terms=terms)
        st.assume(f)
        return f

    def use_contract(self_, st, qualname, _returned=False, **args):
        self = self_
        # _returned: the lemma is ABOUT a call that returned normally (e.g. one made inside a validator that returned);
        # the post-conditions are then facts about its result without a termination/normal-return argument
        """lemma step: instantiate a verified contract at given arguments.  Adds  pred(args) ==> ensures(args)  to the
        state (as separate top-level facts when pred(args) already follows from the state).  Sound because the function's
        own obligations are part of the same check and the function is deterministic (normal return is a predicate of
        the arguments)."""
        con = self.contracts[qualname]
        self.used_contracts.add(qualname)
        func = self.resolve(qualname)
        node, _ = self.func_ast(func)
        names = [a.arg for a in node.args.args]
        vals = {n: args[n] for n in names}
        sub = st
        sub.stack.append(Frame(dict(vals), None, func.__globals__, qualname + ':use'))
        try:
            env = self.with_lets(con, sub, {})
            for lname, _t in con.lets:
                sub.frame.vars[lname] = env[lname]
            if con.uf_name:
                rty = con.returns_type
                if rty is None and node.returns is not None:
                    rty = from_annotation(ast.unparse(node.returns), self.reg, func.__globals__)
                env = dict(env, result=self.uf_result(con, rty, vals, node, sub))
            pre = [self.spec_bool(t, sub, env) for t in con.requires_]
            pred = self.predicate_term(con, vals, sub) if con.predicate_ else z3.BoolVal(True)
            facts = [self.b(self.spec_bool(t, sub, env)) for t in con.ensures_]
        finally:
            sub.stack.pop()
        guard = self.b(self._and(pre + [pred]))
        hyps_now = list(self.axioms) + list(self.func_axioms) + list(st.pc)

        def roi_refuted():
            # every raising path satisfies all raises_only_if clauses; if their conjunction is refuted here, the call
            # returns normally (termination: loops range over finite sequences)
            if not con.raises_only_if_:
                return False
            sub.stack.append(Frame(dict(vals), None, func.__globals__, qualname + ':use'))
            try:
                for lname, _t in con.lets:
                    sub.frame.vars[lname] = env[lname]
                roi = [self.b(self.spec_bool(t, sub, env)) for t in con.raises_only_if_]
            finally:
                sub.stack.pop()
            return self.quick_prove(hyps_now, z3.Not(z3.And(*roi)))
        if con.predicate_:
            if not self.quick_prove(hyps_now, pred) and roi_refuted():
                st.assume(pred)
        elif not con.never_raises and not _returned:
            if not roi_refuted():
                raise Outside("use_contract(%s): cannot establish that the call returns normally" % qualname)
        if self.quick_prove(list(self.axioms) + list(self.func_axioms) + list(st.pc), guard):
            self.last_used_facts = []
            for f in facts:
                # a conditional clause whose condition already holds here is recorded unconditionally
                while z3.is_implies(f) and self.quick_prove(list(st.pc), f.arg(0), timeout_ms=1500):
                    f = f.arg(1)
                st.assume(f)
                self.last_used_facts.append(f)
            return True
        self.last_used_facts = [z3.Implies(guard, f) for f in facts]
        st.assume(z3.Implies(guard, z3.And(*facts)) if facts else z3.BoolVal(True))
        return False

    def raise_classes(self, con):
        if con.raise_cases is not None:
            return con.raise_cases
        if con.raises_allowed is None:
            return [(AnyException, None)]
        return [(c, None) for c in con.raises_allowed]

    def uf_result(self, con, rty, vals, node, st):
        names = con.uf_args or [a.arg for a in node.args.args]
        ts = []
        for n in names:
            if n in vals:
                ts.append(self.term(vals[n], None, st))
            else:
                # an access path over the parameters (e.g. a field of a mutable receiver): the summary depends on its value
                val = self.spec_value(n, st, {})
                if isinstance(val, Ref):
                    val = self.lift(val, st)
                ts.append(self.term(val, None, st))
        f = self.uf(con.uf_name, *([t.sort() for t in ts] + [to_sort(rty, self.reg)]))
        return V(f(*ts), rty)

    def resolve_stream_fields(self, st, first_new):
        """after a callee's post-conditions were assumed: a stream field that was havoced and is now stated EQUAL to a term
        over the pre-state (`f.data == d0`, `f.pos == p0 + ...`) is replaced by that term, so that later slices are
        normalised syntactically instead of through an equation (same value by the assumed fact)"""
        eqs = []
        for c in st.pc[first_new:]:
            for d in (c.children() if z3.is_and(c) else [c]):
                if z3.is_eq(d):
                    eqs.append((d.arg(0), d.arg(1)))
                    eqs.append((d.arg(1), d.arg(0)))
        if not eqs:
            return
        for loc, h in st.heap.items():
            if h.kind != 'stream':
                continue
            for fld in ('data', 'pos'):
                cur = h.fields[fld].t
                if not (z3.is_const(cur) and cur.decl().kind() == z3.Z3_OP_UNINTERPRETED):
                    continue
                for a, b in eqs:
                    if a.eq(cur) and not self._mentions(b, cur):
                        h.fields[fld] = V(b, h.fields[fld].ty)
                        break

    @staticmethod
    def _mentions(e, c):
        todo = [e]
        seen = set()
        while todo:
            x = todo.pop()
            if x.get_id() in seen:
                continue
            seen.add(x.get_id())
            if x.eq(c):
                return True
            if z3.is_app(x):
                todo.extend(x.children())
        return False

    def havoc_paths(self, con, st, env):
        for path in con.modifies_:
            node = ast.parse(path, mode='eval').body
            if isinstance(node, ast.Attribute):
                objv = self.spec_value(ast.unparse(node.value), st, env)
                if not isinstance(objv, Ref):
                    raise Outside("modifies path %s does not denote a heap object" % path)
                h = st.heap[objv.loc]
                cur = h.fields.get(node.attr)
                if isinstance(cur, Ref):
                    hc = st.heap[cur.loc]
                    if hc.kind in ('list', 'set', 'dict') and hc.val is not None:
                        hc.val = self.fresh(node.attr, hc.val.ty)
                    else:
                        raise Outside("cannot havoc %s" % path)
                elif isinstance(cur, V):
                    h.fields[node.attr] = self.fresh(node.attr, cur.ty)
                elif cur is None or is_concrete(cur):
                    ty = con.local_types.get(path) or (h.field_types or {}).get(node.attr)
                    if ty is None:
                        raise Outside("type of modified path %s unknown (c.local(**{path: T}))" % path)
                    h.fields[node.attr] = self.fresh(node.attr, ty)
                else:
                    raise Outside("cannot havoc %s" % path)
            elif isinstance(node, ast.Name):
                v = self.spec_value(path, st, env)
                if isinstance(v, Ref):
                    hc = st.heap[v.loc]
                    if hc.kind in ('list', 'set', 'dict') and hc.val is not None:
                        hc.val = self.fresh(path, hc.val.ty)
                        continue
                    if hc.kind == 'stream':
                        before = hc.fields['pos'].t
                        hc.fields['data'] = self.fresh(path + '.data', BYTES)
                        hc.fields['pos'] = self.fresh(path + '.pos', INT)
                        self.stream_moved(st, hc, before)
                        continue
                raise Outside("cannot havoc %s" % path)
            else:
                raise Outside("modifies path %s" % path)
            st.writes += 1

    # ------------------------------------------------------------------------------------------------ discharge

    def discharge_all(self, cvc5=True, progress=None):
        for ob in self.obligations:
            if ob.status is None:
                self.discharge(ob, cvc5)
                if progress:
                    progress(ob)

    def uf_symbols(self, e):
        """names of the uninterpreted functions (arity > 0) occurring in e, also under quantifiers"""
        k = e.get_id()
        c = self._sym_cache.get(k)
        if c is not None:
            return c[0]
        out = set()
        seen = set()
        todo = [e]
        while todo:
            x = todo.pop()
            i = x.get_id()
            if i in seen:
                continue
            seen.add(i)
            if z3.is_quantifier(x):
                todo.append(x.body())
            elif z3.is_app(x):
                d = x.decl()
                if d.kind() == z3.Z3_OP_UNINTERPRETED and d.arity() > 0:
                    out.add(d.name())
                todo.extend(x.children())
        self._sym_cache[k] = (out, e)
        return out

    def relevance_levels(self, ob):
        """hypothesis subsets tried before the full set (dropping hypotheses is sound; it only keeps z3's quantifier
        instantiation and sequence reasoning from wandering).
        A:  facts sharing an uninterpreted function with the goal + ground facts without any uninterpreted function
        A+: one more round of sharing
        G:  A+ plus every cheap ground fact (no quantifier, no sequence construction)"""
        goal_syms = self.uf_symbols(ob.goal)
        hyps = ob.hyps
        info = [(h, self.hard_for_pruning(h), self.uf_symbols(h)) for h in hyps]
        levels = []
        syms = set(goal_syms)
        for _round in range(2):
            pick = [h for h, hard, hs in info if (hs & syms) or (not hard and not hs)]
            levels.append(pick)
            for h, hard, hs in info:
                if hs & syms:
                    syms = syms | hs
        levels.append([h for h, hard, hs in info if (not hard) or (hs & syms)])
        out = []
        for lv in levels:
            if len(lv) < len(hyps) and (not out or len(lv) != len(out[-1])):
                out.append(lv)
        return out

    @staticmethod
    def _trivial_size(h):
        return False

    def _try(self, hyps, goal, timeout_ms, seed=None, rlimit=None):
        s = self._solver(timeout_ms)
        if seed is not None:
            s.set('random_seed', seed)
        if rlimit is not None:
            # a deterministic budget (z3 resource units, ~0.5M per second here): the verdict of this attempt does not
            # depend on how busy the machine is; the wall-clock timeout is only a backstop
            s.set('rlimit', rlimit)
        for h in hyps:
            s.add(h)
        s.add(z3.Not(goal))
        r = s.check()
        if r == z3.unsat:
            self._last_proof = s        # the solver state of the successful attempt (thorough tier: second opinion)
        return r, s

    @staticmethod
    def split_goal(g):
        """A ==> (B and C)  ~>  [A ==> B, A ==> C]   (so that every universally quantified conjunct is skolemised alone)"""
        if z3.is_and(g):
            out = []
            for c in g.children():
                out.extend(Verifier.split_goal(c))
            return out
        if z3.is_implies(g):
            parts = Verifier.split_goal(g.arg(1))
            if len(parts) > 1:
                return [z3.Implies(g.arg(0), p) for p in parts]
        return [g]

    def discharge(self, ob, use_cvc5=True):
        t0 = time.time()
        if z3.is_true(ob.goal):
            ob.status, ob.backend = 'discharged', 'trivial'
            return ob
        parts = self.split_goal(ob.goal)
        if len(parts) > 1 and not getattr(ob, '_is_part', False):
            from .engine import Obligation
            backends = []
            for k, p in enumerate(parts):
                sub = Obligation(ob.name, ob.hyps, p, ob.where)
                sub.terms = ob.terms
                sub._is_part = True
                self.discharge(sub, use_cvc5)
                backends.append(sub.backend or '?')
                if sub.status != 'discharged':
                    ob.status, ob.backend, ob.model, ob.detail = sub.status, sub.backend, sub.model, \
                        "conjunct %d of %d: %s" % (k + 1, len(parts), sub.detail)
                    break
            else:
                ob.status, ob.backend = 'discharged', '+'.join(sorted(set(backends)))
            ob.seconds = time.time() - t0
            return ob
        self.solver_calls += 1
        # hint from the committed baseline: the stage that discharged this obligation last time is tried first (an ordering
        # only: every stage is sound, and the full ladder follows if the hinted stage does not succeed)
        hint = (getattr(self, 'stage_hints', None) or {}).get(ob.name, ())
        if any('cvc5' in h for h in hint) and use_cvc5:
            # this obligation needed the second solver last time: ask it first (generous budget), then the usual ladder
            s_all = self._solver(1000)
            for h_ in ob.hyps:
                s_all.add(h_)
            s_all.add(z3.Not(ob.goal))
            keep_t = self.timeout_ms
            self.timeout_ms = 90000
            try:
                r_c = self.run_cvc5(s_all)
            finally:
                self.timeout_ms = keep_t
            if r_c == 'unsat':
                ob.status, ob.backend = 'discharged', 'cvc5'
                ob.seconds = time.time() - t0
                self.solver_seconds += ob.seconds
                return ob
        if any(h.startswith('z3/instantiated') for h in hint):
            try:
                from .inst import instantiate
                ghyps, core, n_inst, leftover = instantiate(ob.hyps, ob.goal)
                with_q = any('+q' in h for h in hint) and leftover
                ri, _si = self._try(ghyps + (leftover if with_q else []), core, 60000, rlimit=12000000)
                if with_q:
                    n_inst = -n_inst
                if ri == z3.unsat:
                    ob.status, ob.backend = 'discharged', 'z3/instantiated%s(%d)' % ('+q' if n_inst < 0 else '', abs(n_inst))
                    ob.seconds = time.time() - t0
                    self.solver_seconds += ob.seconds
                    return ob
            except z3.Z3Exception:
                pass
        # 0. quantifier-free hypotheses only (most path obligations need nothing else; dropping hypotheses is sound)
        from .inst import _contains_quantifier
        qf = [h for h in ob.hyps if not _contains_quantifier(h)]
        if len(qf) < len(ob.hyps) and not _contains_quantifier(ob.goal):
            r0, _s0 = self._try(qf, ob.goal, min(1000, self.timeout_ms))
            if r0 == z3.unsat:
                ob.status, ob.backend = 'discharged', 'z3/ground'
                ob.seconds = time.time() - t0
                self.solver_seconds += ob.seconds
                return ob
        # 1. full hypothesis set, short budget (the common case: milliseconds)
        r, s = self._try(ob.hyps, ob.goal, min(1500, self.timeout_ms))
        if r == z3.unsat:
            ob.status, ob.backend = 'discharged', 'z3'
        elif r == z3.sat:
            ob.status, ob.backend, ob.model = 'refuted', 'z3', s.model()
        else:
            # 1a. hypotheses that share an uninterpreted function with the goal, instantiated on the goal's terms: a small
            #     quantifier-free problem (the typical loop-invariant / element-wise obligation needs nothing else)
            try:
                from .inst import instantiate
                from .inst import _constants
                gconst = _constants([ob.goal])
                by_const = [h for h in ob.hyps if (_constants([h]) & gconst) and not self._trivial_size(h)]
                # smallest first: the quantified facts that mention a constant of the goal, alone; then with the cheap
                # ground facts (no sequence constructions) that mention one; then the broader relevance levels
                q_only = [h for h in by_const if _contains_quantifier(h)]
                cheap = [h for h in by_const if not _contains_quantifier(h) and not self.hard_for_pruning(h)]
                levels = []
                # Selection by distance.  Quantified path facts (invariants, pre-conditions, callee post-conditions) are
                # always kept - focused instantiation only instantiates them on the goal's terms; ground path facts are
                # added by distance from the goal over shared RARE constants (a constant occurring in a large part of the
                # hypotheses - a parameter of the function - does not discriminate); of the definitional axioms (ghost
                # functions, lifted sums) only those sharing an uninterpreted function with the goal.
                ax_ids = {a_.get_id() for a_ in list(self.axioms) + list(self.func_axioms)}
                gsyms = self.uf_symbols(ob.goal)
                hc = [(h, _constants([h])) for h in ob.hyps]
                freq = {}
                for _h, cs_ in hc:
                    for c_ in cs_:
                        freq[c_] = freq.get(c_, 0) + 1
                cut = max(8, int(0.35 * len(ob.hyps)))
                pcq = [h for h in ob.hyps if h.get_id() not in ax_ids and _contains_quantifier(h)]
                pcg = [(h, cs_) for h, cs_ in hc if h.get_id() not in ax_ids and not _contains_quantifier(h)]
                ax_rel = [h for h in ob.hyps if h.get_id() in ax_ids and (self.uf_symbols(h) & gsyms)]
                reach = {c_ for c_ in gconst if freq.get(c_, 0) <= cut}
                for h in pcq:       # constants of quantified facts that mention a goal constant are one hop away too
                    cs_ = _constants([h])
                    if cs_ & gconst:
                        reach |= {c_ for c_ in cs_ if freq.get(c_, 0) <= cut}
                rare_goal = {c_ for c_ in gconst if freq.get(c_, 0) <= cut} or set(gconst)
                qg = [h for h in pcq if _constants([h]) & rare_goal]      # quantified facts about the goal's own objects
                prev_n = -1
                for _hop in range(3):
                    sel = [h for h, cs_ in pcg if cs_ & reach]
                    if len(sel) != prev_n:
                        if qg and len(qg) < len(pcq):
                            levels.append(qg + sel + ax_rel)
                        levels.append(pcq + sel + ax_rel)
                        prev_n = len(sel)
                    for h, cs_ in pcg:
                        if cs_ & reach:
                            reach = reach | {c_ for c_ in cs_ if freq.get(c_, 0) <= cut}
                levels.append(pcq + [h for h, _c in pcg] + ax_rel)
                if q_only:
                    levels.append(q_only)
                    if cheap:
                        levels.append(q_only + cheap)
                levels += self.relevance_levels(ob)[:2]
                if by_const and len(by_const) < len(ob.hyps):
                    levels.append(by_const)
                # each selection also without its sequence-constructing ground facts (z3's sequence solver answers
                # `unknown` on some irrelevant ones) - dropping hypotheses is always sound
                variants = []
                seen_keys = set()
                for lv in levels:
                    qs = [h for h in lv if _contains_quantifier(h)]
                    ch = [h for h in lv if not _contains_quantifier(h) and not self.hard_for_pruning(h)]
                    for cand in (lv, (qs + ch) if qs else None):
                        if not cand:
                            continue
                        key = tuple(sorted(h.get_id() for h in cand))
                        if key not in seen_keys:
                            seen_keys.add(key)
                            variants.append(cand)
                levels = variants[:18]
                # the selections that were enough for most obligations so far come first (cheap pass), the distance-based
                # ones after them; a second pass gives the first few a larger budget
                old_style = [lv for lv in ([q_only, (q_only + cheap) if cheap else None] + self.relevance_levels(ob)[:2]
                                           + [by_const if by_const and len(by_const) < len(ob.hyps) else None]) if lv]
                old_keys = {tuple(sorted(h.get_id() for h in lv)) for lv in old_style}
                rest = [lv for lv in levels if tuple(sorted(h.get_id() for h in lv)) not in old_keys]
                levels = old_style + rest
                prepared = []
                for k, lv in enumerate(levels):
                    fh, fcore, fn_, _fl = instantiate(lv, ob.goal, rounds=2, focused=True, extra_terms=ob.terms,
                                                      max_instances=600)
                    prepared.append((fh, fcore, fn_))
                    rf, _sf = self._try(fh, fcore, 180000, rlimit=1500000)
                    if rf == z3.unsat:
                        ob.status, ob.backend = 'discharged', 'z3/relevant%d+focused(%d)' % (k, fn_)
                        break
                self._second_pass = (prepared, len(old_style))
            except z3.Z3Exception as e:
                ob.detail += 'relevant+focused instantiation failed: %s; ' % e
        if ob.status is None and r != z3.sat:
            # 1b. focused instantiation: only the terms of the goal (and those a lemma script names), two rounds
            try:
                from .inst import instantiate
                fh, fcore, fn_, _fl = instantiate(ob.hyps, ob.goal, rounds=2, focused=True, extra_terms=ob.terms,
                                                  max_instances=1500)
                rf, _sf = self._try(fh, fcore, min(5000, self.timeout_ms))
                if rf == z3.unsat:
                    ob.status, ob.backend = 'discharged', 'z3/focused(%d)' % fn_
            except z3.Z3Exception as e:
                ob.detail += 'focused instantiation failed: %s; ' % e
        if ob.status is None and r != z3.sat:
            # 2. deterministic instantiation on index terms (quantifier-free problem)
            candidate = None
            try:
                from .inst import instantiate
                ghyps, core, n_inst, leftover = instantiate(ob.hyps, ob.goal)
                ri, si = self._try(ghyps, core, min(6000, self.timeout_ms))
                if ri == z3.unsat:
                    ob.status, ob.backend = 'discharged', 'z3/instantiated(%d)' % n_inst
                elif leftover:
                    ri2, _ = self._try(ghyps + leftover, core, min(6000, self.timeout_ms))
                    if ri2 == z3.unsat:
                        ob.status, ob.backend = 'discharged', 'z3/instantiated+q(%d)' % n_inst
                if ob.status is None and ri == z3.sat:
                    candidate = si.model()      # a model of the instantiated problem: candidate counterexample
            except z3.Z3Exception as e:
                ob.detail += 'instantiation failed: %s; ' % e
            if ob.status is None and candidate is not None:
                # the instantiated problem has a model: most likely a genuine counterexample; spend little more
                r3, s3 = self._try(ob.hyps, ob.goal, min(8000, self.timeout_ms))
                if r3 == z3.unsat:
                    ob.status, ob.backend = 'discharged', 'z3'
                elif r3 == z3.sat:
                    ob.status, ob.backend, ob.model = 'refuted', 'z3', s3.model()
                else:
                    ob.status, ob.backend, ob.model = 'unknown', 'z3', candidate
                    ob.detail += 'z3: unknown on the quantified problem (%s); the instantiated problem is satisfiable ' \
                                 '(candidate counterexample attached)' % s3.reason_unknown()
            # 2b. second pass over the first distance-based selections with a larger (still deterministic) budget
            sp = getattr(self, '_second_pass', None)
            self._second_pass = None
            if ob.status is None and sp is not None:
                prepared, n_old = sp
                for k in list(range(n_old, min(len(prepared), n_old + 6))) + list(range(0, min(n_old, 2))):
                    fh, fcore, fn_ = prepared[k]
                    rf, _sf = self._try(fh, fcore, 180000, rlimit=7000000)
                    if rf == z3.unsat:
                        ob.status, ob.backend = 'discharged', 'z3/relevant%d+focused(%d)/2' % (k, fn_)
                        break
            # 3. relevance-filtered subsets
            for k, lv in enumerate(self.relevance_levels(ob) if ob.status is None else []):
                r2, _s2 = self._try(lv, ob.goal, min(4000, self.timeout_ms))
                if r2 == z3.unsat:
                    ob.status, ob.backend = 'discharged', 'z3/relevant%d' % k
                    break
            if ob.status is None:
                # 3. full set, full budget; then cvc5; then another seed
                r3, s3 = self._try(ob.hyps, ob.goal, self.timeout_ms)
                if r3 == z3.unsat:
                    ob.status, ob.backend = 'discharged', 'z3'
                elif r3 == z3.sat:
                    ob.status, ob.backend, ob.model = 'refuted', 'z3', s3.model()
                else:
                    ob.detail = 'z3: unknown (%s)' % s3.reason_unknown()
                    if use_cvc5:
                        r4 = self.run_cvc5(s3)
                        if r4 == 'unsat':
                            ob.status, ob.backend = 'discharged', 'cvc5'
                        else:
                            ob.detail += '; cvc5: %s' % r4
                    if ob.status is None:
                        r5, s5 = self._try(ob.hyps, ob.goal, self.timeout_ms, seed=self.seed + 17)
                        if r5 == z3.unsat:
                            ob.status, ob.backend = 'discharged', 'z3(seed2)'
                        elif r5 == z3.sat:
                            ob.status, ob.backend, ob.model = 'refuted', 'z3(seed2)', s5.model()
                        else:
                            ob.status = 'unknown'
        ob.seconds = time.time() - t0
        self.solver_seconds += ob.seconds
        if ob.status == 'discharged' and (ob.backend or '').startswith('z3') and os.environ.get('VERIF_TIER_EFFECTIVE') == 'thorough':
            ob.proof_solver = getattr(self, '_last_proof', None)
        self._last_proof = None
        return ob

    def second_opinion(self, timeout_ms=10000):
        """thorough tier: every obligation z3 discharged is offered to cvc5 on exactly the hypotheses z3 used.  'unsat'
        agrees; 'unknown'/timeout says nothing; 'sat' is a disagreement between the solvers and is reported as a checker
        problem (undecided), never silently ignored"""
        out = {'agree': 0, 'no_answer': 0, 'disagree': [], 'not_asked': 0}
        keep = self.timeout_ms
        self.timeout_ms = timeout_ms
        t_start = time.time()
        budget_s = float(os.environ.get('VERIF_SECOND_OPINION_BUDGET_S', '240'))      # per function / lemma
        try:
            for ob in self.obligations:
                pr = getattr(ob, 'proof_solver', None)
                if ob.status != 'discharged' or pr is None:
                    continue
                if time.time() - t_start > budget_s:
                    out['not_asked'] += 1
                    continue
                r = self.run_cvc5(pr)
                if r == 'unsat':
                    out['agree'] += 1
                elif r == 'sat':
                    out['disagree'].append(ob.name)
                else:
                    out['no_answer'] += 1
        finally:
            self.timeout_ms = keep
        return out

    def run_cvc5(self, solver):
        try:
            smt = "(set-logic ALL)\n" + solver.to_smt2().replace('seq.nth_i', 'seq.nth').replace('seq.nth_u', 'seq.nth')
            with tempfile.NamedTemporaryFile('w', suffix='.smt2', delete=False) as f:
                f.write(smt)
                path = f.name
            try:
                r = subprocess.run(['/usr/bin/cvc5', '--strings-exp', '--tlimit=%d' % self.timeout_ms, path],
                                   capture_output=True, text=True, timeout=self.timeout_ms / 1000 + 5)
                out = (r.stdout or '').strip().splitlines()
                return out[0] if out else ('error: ' + (r.stderr or '')[:200])
            finally:
                os.unlink(path)
        except Exception as e:      # cvc5 trouble is never a verdict
            return 'error: %s' % e
