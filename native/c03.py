"""C03, bounded part (NOT a proof): per-key balances versus unspent sets, and immutability of earlier snapshots, on
enumerated block trees with spends, in several arrival orders, with the real CoinState / balances code.

Bound (stated in the evidence): trees with <= N non-genesis blocks, <= 2 spends per block, arrival orders capped."""
from __future__ import annotations
import itertools
import random

from . import chainlib


def _fingerprint_utxo(u):
    return tuple(sorted((r.hash, r.index, o.value, o.public_key.public_key) for r, o in u.items()))


def _fingerprint_pkb(p):
    return tuple(sorted((k.public_key, b.value, tuple((r.hash, r.index) for r in b.output_references)) for k, b in p.items()))


def _reference_apply(utxo: dict, block):
    """independent reference: apply a block to a plain dict {(txid, index): (value, key)}"""
    u = dict(utxo)
    for n, tx in enumerate(block.transactions):
        if n > 0:
            for i in tx.inputs:
                del u[(i.output_reference.hash, i.output_reference.index)]
        for k, o in enumerate(tx.outputs):
            u[(tx.hash(), k)] = (o.value, o.public_key.public_key)
    return u


def _check_state(cs, ref_utxo_by_hash, problems, where, query_order):
    """coherence at every stored block"""
    n = 0
    for h in query_order:
        u = cs.unspent_transaction_outs_by_hash[h]
        got = {(r.hash, r.index): (o.value, o.public_key.public_key) for r, o in u.items()}
        if got != ref_utxo_by_hash[h]:
            problems.append("%s: unspent set at %s differs from the replay of its ancestors" % (where, h.hex()[:8]))
        p = cs.public_key_balances_by_hash[h]
        per_key = {}
        for (txid, idx), (val, key) in got.items():
            e = per_key.setdefault(key, [0, set()])
            e[0] += val
            e[1].add((txid, idx))
        seen_keys = set()
        for k, b in p.items():
            key = k.public_key
            seen_keys.add(key)
            refs = [(r.hash, r.index) for r in b.output_references]
            want = per_key.get(key, [0, set()])
            if b.value != want[0]:
                problems.append("%s: balance of a key at %s is %d, its unspent outputs sum to %d" % (where, h.hex()[:8], b.value, want[0]))
            if len(refs) != len(set(refs)) or set(refs) != want[1]:
                problems.append("%s: reference list of a key at %s is not exactly its unspent outputs" % (where, h.hex()[:8]))
        for key, (val, refs) in per_key.items():
            if key not in seen_keys and val != 0:
                problems.append("%s: key with unspent outputs has no balance entry at %s" % (where, h.hex()[:8]))
        n += 1
    return n


def _build_tree(shape, wallet, rng, spends_per_block):
    """blocks of a tree given as parent indices (shape[i] = index of the parent of block i+1; block 0 is genesis), built
    on linear per-branch states so that construction does not depend on the fork handling under test"""
    from skepticoin.coinstate import CoinState
    from skepticoin.datatypes import Transaction, Input, Output, OutputReference
    from skepticoin.signing import SECP256k1PublicKey, SECP256k1Signature
    keys = list(wallet.keypairs.keys())
    blocks = []
    branch_state = []     # linear coinstate ending at block i
    g = chainlib.mine(CoinState.empty(), [], keys[0], 1_700_000_000)
    blocks.append(g)
    branch_state.append(CoinState.empty().add_block_no_validation(g))
    for i, parent in enumerate(shape):
        cs = branch_state[parent]
        u = cs.unspent_transaction_outs_by_hash[cs.current_chain_hash]
        avail = sorted(u.items(), key=lambda kv: (kv[0].hash, kv[0].index))
        txs = []
        used = set()
        for s in range(spends_per_block):
            cands = [kv for kv in avail if (kv[0].hash, kv[0].index) not in used]
            if not cands:
                break
            # spend one or two outputs, preferring two outputs of the same key when available
            first = cands[rng.randrange(len(cands))]
            same = [kv for kv in cands if kv[1].public_key == first[1].public_key and kv[0] != first[0]]
            chosen = [first] + (same[:1] if same and rng.random() < 0.7 else [])
            for kv in chosen:
                used.add((kv[0].hash, kv[0].index))
            total = sum(kv[1].value for kv in chosen)
            k_to = keys[rng.randrange(len(keys))]
            k_ch = keys[rng.randrange(len(keys))]
            a = max(1, total // 3)
            outs = [Output(a, SECP256k1PublicKey(k_to))]
            if total - a > 0:
                outs.append(Output(total - a, SECP256k1PublicKey(k_ch)))
            txs.append(Transaction([Input(kv[0], SECP256k1Signature(b"\x01" * 64)) for kv in chosen], outs))
        b = chainlib.mine(cs, txs, keys[(i + 1) % len(keys)], 1_700_000_000 + 10 * (i + 1) + parent)
        blocks.append(b)
        branch_state.append(cs.add_block_no_validation(b))
    return blocks


def _shapes(n):
    """all trees on n non-genesis blocks: shape[i] in 0..i"""
    return itertools.product(*[range(i + 1) for i in range(n)])


def _orders(shape, cap, rng):
    """parent-before-child arrival orders of blocks 1..n (genesis first)"""
    n = len(shape)
    out = []
    for perm in itertools.permutations(range(1, n + 1)):
        pos = {b: k for k, b in enumerate(perm)}
        if all(shape[b - 1] == 0 or pos[shape[b - 1]] < pos[b] for b in perm):
            out.append(perm)
    rng.shuffle(out)
    return out[:cap]


def run(tier='quick', seed=0):
    from skepticoin.coinstate import CoinState
    rng = random.Random(seed)
    wallet = chainlib.det_wallet(3)
    max_blocks = 4 if tier == 'quick' else 5
    order_cap = 4 if tier == 'quick' else 12
    problems = []
    evaluations = 0
    distinct = set()
    samples = []
    for n in range(1, max_blocks + 1):
        for shape in _shapes(n):
            blocks = _build_tree(shape, wallet, rng, spends_per_block=2)
            ref = {}
            for i, b in enumerate(blocks):
                parent = {} if i == 0 else ref[blocks[shape[i - 1]].hash()]
                ref[b.hash()] = _reference_apply(parent, b)
            n_spends = sum(len(b.transactions) - 1 for b in blocks)
            for order in _orders(shape, order_cap, rng):
                cs = CoinState.empty().add_block_no_validation(blocks[0])
                snapshots = []      # (coinstate object, balances maps obtained then, fingerprints)
                stored = [blocks[0].hash()]
                for step, bi in enumerate(order):
                    # obtain balances at some stored blocks BEFORE the arrival (exercises the memo), keep fingerprints
                    q = list(stored)
                    rng.shuffle(q)
                    held = {h: cs.public_key_balances_by_hash[h] for h in q[:2]}
                    snapshots.append((cs, held, {h: _fingerprint_pkb(p) for h, p in held.items()},
                                      {h: _fingerprint_utxo(cs.unspent_transaction_outs_by_hash[h]) for h in stored}))
                    cs = cs.add_block_no_validation(blocks[bi])
                    stored.append(blocks[bi].hash())
                    where = "tree %s order %s after arrival %d" % (list(shape), list(order), step + 1)
                    qo = list(stored)
                    rng.shuffle(qo)
                    evaluations += _check_state(cs, ref, problems, where, qo)
                    # earlier snapshots are unchanged
                    for (old_cs, held_maps, fp_pkb, fp_utxo) in snapshots:
                        for h, p in held_maps.items():
                            if _fingerprint_pkb(p) != fp_pkb[h]:
                                problems.append("%s: balances obtained earlier at %s changed" % (where, h.hex()[:8]))
                        for h, fp in fp_utxo.items():
                            if _fingerprint_utxo(old_cs.unspent_transaction_outs_by_hash[h]) != fp:
                                problems.append("%s: unspent set of an earlier snapshot changed" % where)
                    if problems:
                        break
                distinct.add((shape, order, n_spends > 0))
                if len(samples) < 3 and n_spends > 0:
                    samples.append({'tree_parent_indices': list(shape), 'arrival_order': list(order), 'spends': n_spends})
                if problems:
                    break
            if problems:
                break
        if problems:
            break
    res = {
        'coverage': {
            'evaluations': evaluations,
            'distinct_nontrivial': len([d for d in distinct if d[2]]),
            'rule': "every tree shape on <= %d non-genesis blocks (each block with up to 2 spends of 1-2 outputs, preferring two "
                    "outputs of the same key), up to %d parent-before-child arrival orders each; after every arrival, at "
                    "every stored block: unspent set == independent replay, per-key balance == sum and references == "
                    "set of that key's unspent outputs, all earlier snapshots and balance maps unchanged. Non-trivial = "
                    "the tree contains at least one spend; distinct = (tree shape, arrival order)" % (max_blocks, order_cap),
            'samples': samples,
            'exhaustive': False,
            'bound': {'max_non_genesis_blocks': max_blocks, 'spends_per_block': 2, 'orders_per_tree': order_cap},
        },
        'violations': [],
        'known_findings': [],
        'problems': [],
    }
    if problems:
        res['violations'].append({'name': 'C03:bounded:coherence-or-snapshot', 'what': problems[:5],
                                  'failing_input_found': True})
    return res
