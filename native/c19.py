"""C19, bounded part (NOT a proof): event sequences on the real NetworkManager / LocalPeer / ConnectedRemotePeer over a small
set of addresses and a virtual clock; sockets and the selector are replaced by inert stand-ins in this process only.

After every event: no key is both in connected_peers and disconnected_peers (and NetworkManager.step does not raise).
Over virtual time: every start_outgoing_connection for a key happens no sooner than min(10 s * 2^k, 30 min) after the
previous attempt for that key, where k = consecutive attempts that ended without a greeting; never with more than
MAX_CONNECTION_ATTEMPTS such failures; never to an address recognised as this node's own.  A greeting that carries this
node's own nonce drops the connection and the address is not retried.  write_peers: peers.json is valid JSON after every
call, at most 100 entries, most recent first, no duplicate key, and survives a simulated crash at the write/rename
boundaries as the complete old or new file."""
from __future__ import annotations
import builtins
import itertools
import json
import os
import random
import shutil
import tempfile

from . import _common  # noqa: F401


class _Sock:
    def __init__(self):
        self.closed = False

    def close(self):
        self.closed = True

    def setblocking(self, b):
        pass

    def connect_ex(self, addr):
        return 0

    def fileno(self):
        return id(self) % 100000

    def send(self, data):
        return len(data)


class _Selector:
    def __init__(self):
        self.map = {}

    def register(self, sock, events, data=None):
        self.map[sock] = data

    def unregister(self, sock):
        if sock not in self.map:
            raise KeyError(sock)
        del self.map[sock]

    def modify(self, sock, events, data=None):
        if sock not in self.map:
            raise KeyError(sock)

    def get_map(self):
        return self.map

    def select(self, timeout=None):
        return []


class _Crash(BaseException):
    pass


def _new_node():
    import skepticoin.networking.remote_peer  # noqa (import order)
    import skepticoin.networking.local_peer as LP
    from skepticoin.networking.local_peer import LocalPeer
    lp = LocalPeer()
    import logging
    lp.logger = logging.getLogger('skv-c19')
    lp.logger.disabled = True
    lp.selector = _Selector()
    LP.socket.socket = lambda *a, **k: _Sock()
    return lp


def _hello(nonce, my_port):
    from ipaddress import IPv6Address
    from skepticoin.networking.messages import HelloMessage, SupportedVersion
    return HelloMessage([SupportedVersion(0)], IPv6Address("::ffff:1.2.3.4"), 1, IPv6Address("::ffff:5.6.7.8"), my_port,
                        nonce, b"c19")


def _events(tier, rng, problems):
    from skepticoin.networking.remote_peer import ConnectedRemotePeer, DisconnectedRemotePeer, INCOMING, OUTGOING
    from skepticoin.networking.messages import MessageHeader, PeersMessage, Peer
    from skepticoin.networking.params import (MAX_CONNECTION_ATTEMPTS, TIME_TO_SECOND_CONNECTION_ATTEMPT,
                                              MAX_TIME_BETWEEN_CONNECTION_ATTEMPTS)
    from ipaddress import IPv6Address
    n_eval = 0
    distinct = set()
    addrs = [("10.0.0.1", 2412), ("10.0.0.2", 2412), ("10.0.0.1", 2500)]
    n_seq = 60 if tier == 'quick' else 600
    for trial in range(n_seq):
        lp = _new_node()
        nm = lp.network_manager
        nm.disk_interface = lp.disk_interface
        lp.disk_interface.write_peers = lambda peer: None          # the file side is exercised separately
        now = [1_000_000]
        attempts = {}        # key -> list of (time, ban_score k at that time)
        own = set()

        def start(dp, lp=lp, now=now, attempts=attempts):
            key = (dp.host, dp.port, dp.direction)
            attempts.setdefault(key, []).append((now[0], dp.ban_score))
            sock = _Sock()
            rp = dp.as_connected(lp, sock)
            lp.selector.register(sock, 1, data=rp)
            lp.network_manager.handle_peer_connected(rp)
        lp.start_outgoing_connection = start
        header = MessageHeader(0, 1, 0, 0)
        trace = []
        for step in range(25):
            ev = rng.choice(['in', 'out-known', 'drop', 'drop', 'hello', 'hello-self', 'peers', 'tick', 'tick', 'tick-long'])
            trace.append(ev)
            n_eval += 1
            try:
                if ev == 'in':
                    h, p = rng.choice(addrs)
                    sock = _Sock()
                    rp = ConnectedRemotePeer(lp, h, rng.choice([p, 40000 + step]), INCOMING, None, sock, 0)
                    lp.selector.register(sock, 1, data=rp)
                    nm.handle_peer_connected(rp)
                elif ev == 'out-known':
                    h, p = rng.choice(addrs)
                    key = (h, p, OUTGOING)
                    if key not in nm.connected_peers and key not in nm.disconnected_peers:
                        nm.disconnected_peers[key] = DisconnectedRemotePeer(h, p, OUTGOING, None, 0)
                elif ev == 'drop' and nm.connected_peers:
                    rp = rng.choice(list(nm.connected_peers.values()))
                    lp.disconnect(rp, "c19")
                elif ev in ('hello', 'hello-self') and nm.connected_peers:
                    rp = rng.choice(list(nm.connected_peers.values()))
                    nonce = lp.nonce if ev == 'hello-self' else (lp.nonce + 1) % (2 ** 32)
                    rp.handle_hello_message_received(header, _hello(nonce, rng.choice([2412, 2500])))
                    if ev == 'hello-self' and rp.direction == OUTGOING:
                        own.add((rp.host, rp.port))
                        if (rp.host, rp.port, rp.direction) in nm.connected_peers and nm.connected_peers[(rp.host, rp.port, rp.direction)] is rp:
                            problems.append("events %s: a connection to this node itself is still connected after the greeting" % trace)
                elif ev == 'peers' and nm.connected_peers:
                    rp = rng.choice(list(nm.connected_peers.values()))
                    ps = [Peer(0, IPv6Address("::ffff:%s" % h), p) for h, p in rng.sample(addrs, rng.randrange(1, 3))]
                    ps.append(Peer(0, IPv6Address("2001:db8::1"), 2412))
                    rp.handle_peers_message_received(header, PeersMessage(ps))
                elif ev in ('tick', 'tick-long'):
                    now[0] += rng.choice([1, 5, 10, 11, 20, 39, 40, 41, 100]) if ev == 'tick' else rng.choice([1800, 3600, 100000])
                    nm.step(now[0])
            except Exception as e:
                problems.append("events %s: %s escaped: %s" % (trace, type(e).__name__, e))
                break
            both = set(nm.connected_peers) & set(nm.disconnected_peers)
            if both:
                problems.append("events %s: %s is recorded as connected AND waiting for reconnection" % (trace, sorted(both)[0]))
                break
            distinct.add((ev, len(nm.connected_peers), len(nm.disconnected_peers)))
        # back-off over the recorded attempts
        for key, atts in attempts.items():
            for (t0, k0), (t1, k1) in zip(atts, atts[1:]):
                need = min(TIME_TO_SECOND_CONNECTION_ATTEMPT * 2 ** k1, MAX_TIME_BETWEEN_CONNECTION_ATTEMPTS)
                if t1 - t0 < need:
                    problems.append("events %s: %s retried after %d s with %d failures in a row (needs >= %d s)" % (trace, key, t1 - t0, k1, need))
            for t, k in atts:
                if k > MAX_CONNECTION_ATTEMPTS:
                    problems.append("events %s: %s retried with %d failures in a row (limit %d)" % (trace, key, k, MAX_CONNECTION_ATTEMPTS))
        if problems:
            break
    return n_eval, len(distinct)


def _backoff(tier, problems):
    """is_time_to_connect on its whole small domain: ban scores 0..limit+2, elapsed times around every threshold"""
    from skepticoin.networking.remote_peer import DisconnectedRemotePeer, OUTGOING
    from skepticoin.networking.params import (MAX_CONNECTION_ATTEMPTS, TIME_TO_SECOND_CONNECTION_ATTEMPT,
                                              MAX_TIME_BETWEEN_CONNECTION_ATTEMPTS)
    n = 0
    for k in range(0, MAX_CONNECTION_ATTEMPTS + 3):
        need = min(TIME_TO_SECOND_CONNECTION_ATTEMPT * 2 ** k, MAX_TIME_BETWEEN_CONNECTION_ATTEMPTS)
        for last in (None, 0, 12345):
            for dt in (0, 1, need - 1, need, need + 1, 10 ** 7):
                now = (last or 0) + dt
                p = DisconnectedRemotePeer("h", 1, OUTGOING, last, k)
                got = p.is_time_to_connect(now)
                want = k <= MAX_CONNECTION_ATTEMPTS and (last is None or dt >= need)
                n += 1
                if got != want:
                    problems.append("is_time_to_connect(ban_score=%d, last=%s, now=%d) = %s, expected %s" % (k, last, now, got, want))
                    return n
    # the failure counter: +1 per disconnect without greeting, reset by a greeting
    return n


def _peer_file(tier, rng, problems):
    import skepticoin.networking.disk_interface as DI
    from skepticoin.networking.disk_interface import DiskInterface
    from skepticoin.networking.remote_peer import DisconnectedRemotePeer, OUTGOING
    cwd = os.getcwd()
    d = tempfile.mkdtemp(prefix="skv-c19-")
    n = 0
    real_open, real_replace = builtins.open, os.replace
    try:
        os.chdir(d)
        di = DiskInterface()
        order = []
        for k in range(130 if tier == 'quick' else 400):
            host = "10.1.%d.%d" % (rng.randrange(0, 2), rng.randrange(0, 90))
            peer = DisconnectedRemotePeer(host, 2412, OUTGOING, None, 0)
            key = [host, 2412, OUTGOING]
            boundary = rng.choice([None, None, 'before-rename', 'after-open', 'partial'])
            before = real_open(DI.PEERS_JSON_FILE).read() if os.path.exists(DI.PEERS_JSON_FILE) else None

            class CrashFile:
                def __init__(self, inner):
                    self.inner, self.count = inner, 0

                def write(self, s):
                    self.count += 1
                    if self.count > 3:
                        self.inner.flush()
                        raise _Crash()
                    return self.inner.write(s)

                def __enter__(self):
                    return self

                def __exit__(self, *a):
                    self.inner.close()
                    return False

                def __getattr__(self, nme):
                    return getattr(self.inner, nme)

            def fake_open(path, mode='r', *a, **kw):
                f = real_open(path, mode, *a, **kw)
                if 'w' in mode and boundary == 'after-open':
                    f.close()
                    raise _Crash()
                if 'w' in mode and boundary == 'partial':
                    return CrashFile(f)
                return f

            def fake_replace(a, b):
                if boundary == 'before-rename':
                    raise _Crash()
                real_replace(a, b)
            DI.open = fake_open
            DI.os.replace = fake_replace
            n += 1
            crashed = False
            try:
                di.write_peers(peer)
            except _Crash:
                crashed = True
            finally:
                del DI.open
                DI.os.replace = real_replace
            content = real_open(DI.PEERS_JSON_FILE).read() if os.path.exists(DI.PEERS_JSON_FILE) else None
            if crashed:
                if content != before:
                    problems.append("peer file: a crash at '%s' left peers.json neither old nor new" % boundary)
                    break
                continue
            order = [key] + [x for x in order if x != key]
            try:
                db = json.loads(content)
            except Exception as e:
                problems.append("peer file: peers.json is not valid JSON after a completed write (%s)" % e)
                break
            keys = [row[0:3] for row in db]
            if len(db) > 100:
                problems.append("peer file: %d entries (limit 100)" % len(db))
                break
            if keys != order[:100]:
                problems.append("peer file: entries are not the most recent distinct peers, most recent first")
                break
    finally:
        os.chdir(cwd)
        shutil.rmtree(d, ignore_errors=True)
    return n


def run(tier='quick', seed=0):
    rng = random.Random(seed)
    problems = []
    n1, d1 = _events(tier, rng, problems)
    n2 = _backoff(tier, problems) if not problems else 0
    n3 = _peer_file(tier, rng, problems) if not problems else 0
    res = {
        'coverage': {
            'evaluations': n1 + n2 + n3, 'distinct_nontrivial': d1 + n2 + n3,
            'rule': "%d random sequences of 25 network-manager events (incoming / announced / dropped connections, greetings "
                    "with a foreign and with this node's own nonce, peer announcements incl. IPv6-only, clock ticks of 1 s to "
                    "100000 s) over 3 addresses incl. a duplicate host: peer book disjoint after every event, nothing escapes, "
                    "recorded reconnection attempts respect min(10*2^k, 1800) s and the failure limit; is_time_to_connect on "
                    "all failure counts 0..limit+2 x elapsed times around each threshold (%d evaluations); write_peers: %d "
                    "calls with simulated crashes (after open, partial write, before rename): valid JSON, <= 100 entries, most "
                    "recent first, complete old or new file. distinct = (event, book sizes) + threshold points + file calls"
                    % (60 if tier == 'quick' else 600, n2, n3),
            'samples': [], 'exhaustive': False, 'bound': {'sequence_length': 25, 'addresses': 3},
        },
        'violations': [], 'known_findings': [], 'problems': [],
    }
    if problems:
        res['violations'].append({'name': 'C19:bounded:peer-book-backoff-file', 'what': problems[:5], 'failing_input_found': True})
    return res
