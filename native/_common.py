"""Shared helpers for native witness scripts: scratch cwd (skepticoin.blockstore opens chain.db in the cwd at import),
synthetic chains with scrypt replaced by sha256 *in this process only*."""
import os, sys, tempfile, atexit, shutil, hashlib
_scratch = tempfile.mkdtemp(prefix="skv-")
atexit.register(lambda: shutil.rmtree(_scratch, ignore_errors=True))
os.chdir(_scratch)
sys.path.insert(0, os.environ.get("VERIF_REPO", "/repo"))
sys.dont_write_bytecode = True


def fast_scrypt():
    import skepticoin.hash, skepticoin.consensus
    f = lambda password, salt: hashlib.sha256(b"scrypt" + password + b"|" + salt).digest()
    skepticoin.hash.scrypt = f
    skepticoin.consensus.scrypt = f


def no_checkpoints():
    import skepticoin.consensus
    skepticoin.consensus.MAX_KNOWN_HASH_HEIGHT = -1


def fresh_block_store():
    """a new block store in a new scratch directory (sqlite connections must not be shared across fork)"""
    import skepticoin.blockstore as bs
    d = tempfile.mkdtemp(prefix="skv-store-")
    atexit.register(lambda: shutil.rmtree(d, ignore_errors=True))
    os.chdir(d)
    bs.DefaultBlockStore.instance = bs.BlockStore('chain.db')
    return bs.DefaultBlockStore.instance


def known_findings(prop):
    """entries of the committed known-findings file for a property (read-only; never written at run time)"""
    import json
    p = os.path.join(os.path.dirname(os.path.dirname(os.path.abspath(__file__))), 'known_findings.json')
    try:
        return [k for k in json.load(open(p)).get('known', []) if k.get('property') == prop]
    except Exception:
        return []
