"""C11, bounded companion of the proof (NOT counted as proved): the real MessageReceiver against an independent reference
parser, for every 1-, 2- and 3-way cut of short streams of well-formed and corrupted frames.  It exists so that a rewrite
of the receiver that the symbolic executor cannot read (exit 3: undecided) is still confronted with the statement."""
from __future__ import annotations
import itertools
import struct

from . import _common  # noqa: scratch cwd before the repository modules are imported


def reference_parse(s: bytes, magic: bytes, limit: int):
    """(delivered payloads, refused?)"""
    out = []
    while True:
        if len(s) < 4:
            return out, False
        if s[:4] != magic:
            return out, True
        if len(s) < 8:
            return out, False
        (n,) = struct.unpack(">I", s[4:8])
        if n > limit:
            return out, True
        if len(s) < 8 + n:
            return out, False
        out.append(s[8:8 + n])
        s = s[8 + n:]


def run(tier='quick', seed=0):
    import skepticoin.networking.local_peer  # noqa
    import skepticoin.networking.remote_peer as rp
    from skepticoin.networking.params import MAX_MESSAGE_SIZE
    magic = b'MAJI'

    def frame(payload, m=magic, n=None):
        return m + struct.pack(">I", len(payload) if n is None else n) + payload
    streams = {
        'three frames': frame(b'') + frame(b'x') + frame(b'hello'),
        'two frames, then wrong magic': frame(b'ab') + frame(b'c') + frame(b'zz', m=b'MAJ1'),
        'frame, then over-limit length': frame(b'q') + frame(b'', n=MAX_MESSAGE_SIZE + 1) + b'tail',
        'over-limit length right away': frame(b'', n=MAX_MESSAGE_SIZE + 1) + frame(b'x'),
        'limit-sized header, incomplete': frame(b'abc') + magic + struct.pack(">I", MAX_MESSAGE_SIZE),
        'wrong magic in the middle of a header': frame(b'12345') + b'MAXI' + struct.pack(">I", 1) + b'y',
    }
    problems = []
    samples = []
    evaluations = 0
    distinct = set()
    ways = (1, 2, 3) if tier == 'quick' else (1, 2, 3, 4)
    for name, s in streams.items():
        want, want_refused = reference_parse(s, magic, MAX_MESSAGE_SIZE)
        for k in ways:
            for cuts in itertools.combinations(range(1, len(s)), k - 1):
                chunks = [s[a:b] for a, b in zip((0,) + cuts, cuts + (len(s),))]
                r = rp.MessageReceiver(peer=None)
                got = []
                r.handle_message_data = got.append
                refused = False
                try:
                    for c in chunks:
                        r.receive(c)
                except Exception:
                    refused = True
                evaluations += 1
                distinct.add((name, cuts))
                if got != want or refused != want_refused:
                    problems.append("stream '%s' (%d bytes) cut at %s: delivered %r refused=%s; the bytes alone say %r refused=%s"
                                    % (name, len(s), list(cuts), got, refused, want, want_refused))
                    break
            if problems:
                break
        if len(samples) < 3:
            samples.append({'stream': name, 'bytes': len(s), 'frames_expected': len(want), 'refused_expected': want_refused})
        if problems:
            break
    res = {'coverage': {'evaluations': evaluations, 'distinct_nontrivial': len(distinct),
                        'rule': "6 short streams (well-formed, wrong magic, over-limit length, incomplete) x every %s-way cut into "
                                "non-empty chunks; delivered payloads and refusal compared with an independent reference parser; "
                                "distinct = (stream, cut points)" % "/".join(map(str, ways)),
                        'samples': samples, 'exhaustive': True,
                        'bound': {'streams': len(streams), 'ways': list(ways)}},
           'violations': [], 'known_findings': [], 'problems': []}
    if problems:
        res['violations'].append({'name': 'C11:bounded:fragmentation', 'what': problems[:3], 'failing_input_found': True})
    return res
