"""C15, bounded part (NOT a proof): the file side of the wallet.

  file      dump-then-load reproduces key pairs, the ORDER of the unused keys and the annotations, for generated wallets
  handout   random sequences of hand-outs, restores and save/load cycles: no key is handed out twice while unused keys remain
  balance   get_balance == total of the unspent outputs at the head that pay any key of the wallet, on generated ledgers
  crash     save_wallet interrupted at every boundary (before/after opening the temporary file, after every partial write of
            its content, before/after the rename): wallet.json is always the complete previous or the complete new wallet"""
from __future__ import annotations
import builtins
import io
import json
import os
import random
import shutil
import tempfile

from . import chainlib, _common  # noqa: F401


class _Crash(BaseException):
    pass


def _rand_wallet(rng, n):
    from skepticoin.wallet import Wallet
    w = Wallet.empty()
    for _ in range(n):
        pk = bytes(rng.randrange(256) for _ in range(64))
        w.keypairs[pk] = bytes(rng.randrange(256) for _ in range(32))
        if rng.random() < 0.6:
            w.unused_public_keys.append(pk)
        else:
            w.public_key_annotations[pk] = rng.choice(["", "mining", "réception ✓", "a\"b\\c", "x" * 50, "\n\t"])
    rng.shuffle(w.unused_public_keys)
    return w


def _same(a, b):
    return a.keypairs == b.keypairs and a.unused_public_keys == b.unused_public_keys \
        and a.public_key_annotations == b.public_key_annotations


def _dump_text(w):
    f = io.StringIO()
    w.dump(f)
    return f.getvalue()


def run(tier='quick', seed=0):
    import skepticoin.wallet as W
    from skepticoin.wallet import Wallet, save_wallet
    from skepticoin.signing import SECP256k1PublicKey
    rng = random.Random(seed)
    problems = []
    ev = 0
    distinct = 0
    samples = []
    # ---- file
    for n in ([0, 1, 2, 5, 17] if tier == 'quick' else [0, 1, 2, 5, 17, 60, 200]):
        for _ in range(4 if tier == 'quick' else 20):
            w = _rand_wallet(rng, n)
            ev += 1
            try:
                w2 = Wallet.load(io.StringIO(_dump_text(w)))
            except Exception as e:
                problems.append("file: a dumped wallet with %d keys does not load (%s: %s)" % (n, type(e).__name__, e))
                break
            if not _same(w, w2):
                problems.append("file: dump-then-load changes a wallet with %d keys (key pairs / order of unused keys / annotations)" % n)
                break
            distinct += 1
        if problems:
            break
    # ---- hand-outs across save / load
    if not problems:
        for trial in range(10 if tier == 'quick' else 60):
            w = _rand_wallet(rng, rng.choice([1, 3, 8]))
            handed = set(w.public_key_annotations)
            ops = []
            for step in range(14):
                op = rng.choice(['get', 'get', 'get', 'restore', 'reload'])
                ev += 1
                if op == 'get':
                    remaining = len(w.unused_public_keys)
                    k = w.get_annotated_public_key("t%d" % step)
                    ops.append('get')
                    if remaining > 0:
                        if k in handed:
                            problems.append("handout: after %s a key is handed out a second time while %d unused keys remain" % (ops, remaining))
                            break
                        handed.add(k)
                    elif k not in w.keypairs:
                        problems.append("handout: with no unused key left, something that is not a key of the wallet is handed out")
                        break
                elif op == 'restore' and handed:
                    k = rng.choice(sorted(handed))
                    if k in w.public_key_annotations:
                        w.restore_annotated_public_key(k, "")
                        handed.discard(k)
                        ops.append('restore')
                elif op == 'reload':
                    w = Wallet.load(io.StringIO(_dump_text(w)))
                    ops.append('reload')
            distinct += 1
            if problems:
                break
    # ---- balance
    if not problems:
        for n_keys, n_blocks in ([(1, 2), (3, 7)] if tier == 'quick' else [(1, 2), (3, 7), (5, 12), (2, 30)]):
            wallet = chainlib.det_wallet(n_keys + 2, seed=seed + n_keys)
            for k in range(n_keys):
                wallet.get_annotated_public_key("used")          # some keys handed out, some unused
            cs = chainlib.chain(n_blocks, wallet)
            U = cs.unspent_transaction_outs_by_hash[cs.current_chain_hash]
            want = sum(o.value for o in U.values() if o.public_key.public_key in wallet.keypairs)
            ev += 1
            got = wallet.get_balance(cs)
            if got != want:
                problems.append("balance: get_balance reports %d, the unspent outputs paying wallet keys total %d (%d keys, %d blocks)"
                                % (got, want, n_keys + 2, n_blocks))
                break
            distinct += 1
    # ---- crash at every boundary of save_wallet
    if not problems:
        cwd = os.getcwd()
        d = tempfile.mkdtemp(prefix="skv-c15-")
        real_open, real_replace = builtins.open, os.replace
        try:
            os.chdir(d)
            old_w, new_w = _rand_wallet(rng, 6), _rand_wallet(rng, 9)
            old_text, new_text = _dump_text(old_w), _dump_text(new_w)
            boundaries = ['before-open', 'after-open'] + [('write', k) for k in
                                                         (range(0, len(new_text) + 1, 7) if tier != 'quick' else
                                                          sorted(set(list(range(0, len(new_text) + 1, 97)) + [1, len(new_text) - 1, len(new_text)])))] \
                + ['before-rename', 'after-rename']
            for b in boundaries:
                with real_open("wallet.json", "w") as f:
                    f.write(old_text)
                if os.path.exists("wallet.json.new"):
                    os.remove("wallet.json.new")

                class CrashFile:
                    def __init__(self, inner, budget):
                        self.inner, self.budget = inner, budget

                    def write(self, s):
                        if self.budget is not None:
                            if len(s) >= self.budget:
                                self.inner.write(s[:self.budget])
                                self.inner.flush()
                                raise _Crash()
                            self.budget -= len(s)
                        return self.inner.write(s)

                    def __enter__(self):
                        return self

                    def __exit__(self, *a):
                        self.inner.close()
                        return False

                    def __getattr__(self, n):
                        return getattr(self.inner, n)

                def fake_open(path, mode='r', *a, **kw):
                    if 'w' in mode and b == 'before-open':
                        raise _Crash()
                    fobj = real_open(path, mode, *a, **kw)
                    if 'w' in mode:
                        if b == 'after-open':
                            fobj.close()
                            raise _Crash()
                        if isinstance(b, tuple):
                            return CrashFile(fobj, b[1])
                    return fobj

                def fake_replace(src, dst):
                    if b == 'before-rename':
                        raise _Crash()
                    real_replace(src, dst)
                    if b == 'after-rename':
                        raise _Crash()
                W.open = fake_open
                W.os.replace = fake_replace
                ev += 1
                try:
                    save_wallet(new_w)
                    crashed = False
                except _Crash:
                    crashed = True
                finally:
                    del W.open
                    W.os.replace = real_replace
                content = real_open("wallet.json").read()
                if content not in (old_text, new_text):
                    problems.append("crash at %s: wallet.json is neither the complete previous nor the complete new wallet (%d bytes)"
                                    % (b, len(content)))
                    break
                if not crashed and content != new_text:
                    problems.append("save at boundary %s returned but wallet.json is not the new wallet" % (b,))
                    break
                distinct += 1
            samples.append({'crash_boundaries': len(boundaries), 'new_wallet_bytes': len(new_text)})
        finally:
            os.chdir(cwd)
            shutil.rmtree(d, ignore_errors=True)
    res = {
        'coverage': {
            'evaluations': ev, 'distinct_nontrivial': distinct,
            'rule': "file: generated wallets of 0..17 (thorough: ..200) keys through dump/load; handout: random sequences of 14 "
                    "operations (hand-out, restore, dump+load); balance: generated ledgers compared with the total over the "
                    "head's unspent outputs paying wallet keys; crash: save_wallet interrupted before/after opening the "
                    "temporary file, after partial writes of its content (every 97th byte position and the ends; thorough: "
                    "every 7th), before and after the rename - wallet.json must be the complete old or the complete new file",
            'samples': samples, 'exhaustive': False, 'bound': {'sequence_length': 14},
        },
        'violations': [], 'known_findings': [], 'problems': [],
    }
    if problems:
        res['violations'].append({'name': 'C15:bounded:wallet-file-keys-balance-crash', 'what': problems[:5], 'failing_input_found': True})
    return res
