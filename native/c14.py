"""C14, bounded part (NOT a proof): sequences of wallet spends and failed attempts on generated ledger states, with the real
wallet, the real signatures and the node's own transaction validation at the head.

After every call: either a transaction that (a) passes validate_non_coinbase_transaction_by_itself and ..._in_coinstate at
the head, (b) pays exactly `value` to the recipient in its first output, (c) has a second output paying exactly
inputs - value - fee to the change key iff that is non-zero, (d) spends only outputs paying keys of this wallet, none of
which an earlier spend of this wallet used; and the record of used outputs grew by exactly its inputs - or an exception
and the record is unchanged; after a failure, a spend of an amount that the remaining outputs can pay still succeeds."""
from __future__ import annotations
import random

from . import chainlib, _common  # noqa: F401


def run(tier='quick', seed=0):
    from skepticoin.wallet import create_spend_transaction
    from skepticoin.signing import SECP256k1PublicKey
    from skepticoin.consensus import (validate_non_coinbase_transaction_by_itself,
                                      validate_non_coinbase_transaction_in_coinstate)
    from skepticoin.params import SASHIMI_PER_COIN
    rng = random.Random(seed)
    problems = []
    evaluations = 0
    distinct = set()
    samples = []
    other = chainlib.det_wallet(2, seed=99)
    to, change = [SECP256k1PublicKey(k) for k in other.keypairs]
    layouts = [(1, 1), (2, 3), (3, 7), (4, 4)] if tier == 'quick' else [(1, 1), (1, 4), (2, 3), (3, 7), (4, 4), (5, 12), (3, 20)]
    reward = 10 * SASHIMI_PER_COIN
    for n_keys, n_blocks in layouts:
        wallet = chainlib.det_wallet(n_keys, seed=seed + n_keys)
        cs = chainlib.chain(n_blocks, wallet)       # block i pays key i % n_keys
        head = cs.current_chain_hash
        U = cs.unspent_transaction_outs_by_hash[head]
        own = {r for r, o in U.items() if o.public_key.public_key in wallet.keypairs}
        total = sum(U[r].value for r in own)
        for trial in range(12 if tier == 'quick' else 40):
            wallet.spent_transaction_outputs = set()
            used = set()
            steps = []
            for step in range(6):
                left = total - sum(U[r].value for r in used)
                kind = rng.choice(['small', 'exact', 'over', 'over-by-fee', 'reward', 'all-but-one'])
                fee = rng.choice([0, 0, 1, 1000, rng.randrange(0, 5000)])
                if kind == 'small':
                    value = rng.randrange(1, 1000)
                elif kind == 'exact':
                    value = max(1, left - fee)
                elif kind == 'over':
                    value = left + rng.randrange(1, 100)
                elif kind == 'over-by-fee':
                    value, fee = max(1, left), 1
                elif kind == 'reward':
                    value = max(1, reward - fee)        # one output exactly: no change output expected
                else:
                    value = max(1, left - 1 - fee)
                before = set(wallet.spent_transaction_outputs)
                evaluations += 1
                steps.append((kind, value, fee))
                where = "%d keys, %d blocks, calls %s" % (n_keys, n_blocks, steps)
                try:
                    t = create_spend_transaction(wallet, cs, value, fee, to, change)
                except Exception as e:
                    if set(wallet.spent_transaction_outputs) != before:
                        problems.append("%s: the attempt failed (%s) but the record of used outputs changed" % (where, e))
                    if value + fee <= left:
                        # (the number of inputs needed here is far below the size limit)
                        problems.append("%s: funds suffice (%d available, %d needed) but the wallet raised %s: %s"
                                        % (where, left, value + fee, type(e).__name__, e))
                    distinct.add((n_keys, n_blocks, 'fail', kind))
                    if problems:
                        break
                    continue
                distinct.add((n_keys, n_blocks, 'ok', kind, len(t.inputs)))
                refs = [i.output_reference for i in t.inputs]
                spent_in = sum(U[r].value for r in refs if r in U)
                if value + fee > left:
                    problems.append("%s: a spend of %d + fee %d succeeded with only %d available" % (where, value, fee, left))
                try:
                    validate_non_coinbase_transaction_by_itself(t)
                    validate_non_coinbase_transaction_in_coinstate(t, head, cs)
                except Exception as e:
                    problems.append("%s: the transaction fails the node's validation at the head: %s: %s" % (where, type(e).__name__, e))
                if not t.outputs or t.outputs[0].value != value or t.outputs[0].public_key != to:
                    problems.append("%s: first output does not pay exactly %d to the recipient" % (where, value))
                rest = spent_in - value - fee
                if rest == 0 and len(t.outputs) != 1:
                    problems.append("%s: nothing is left over but there are %d outputs" % (where, len(t.outputs)))
                if rest != 0 and (len(t.outputs) != 2 or t.outputs[1].value != rest or t.outputs[1].public_key != change):
                    problems.append("%s: change should be exactly %d to the change key; outputs are %s"
                                    % (where, rest, [(o.value) for o in t.outputs]))
                if len(set(refs)) != len(refs) or any(r not in own for r in refs):
                    problems.append("%s: inputs are not distinct outputs owned by the wallet" % where)
                if any(r in used for r in refs):
                    problems.append("%s: an output used by an earlier spend of this wallet is spent again" % where)
                if set(wallet.spent_transaction_outputs) != before | set(refs):
                    problems.append("%s: the record of used outputs is not (previous record + this spend's inputs)" % where)
                used |= set(refs)
                if problems:
                    break
            if len(samples) < 3:
                samples.append({'keys': n_keys, 'blocks': n_blocks, 'calls': [list(s) for s in steps[:4]]})
            if problems:
                break
        if problems:
            break
    # ---- the size boundary: a spend that needs about 2,000 inputs
    known_lines = []
    if not problems:
        n_out = 2000
        wallet = chainlib.det_wallet(1, seed=seed + 500)
        cs = chainlib.chain(n_out, wallet)
        head = cs.current_chain_hash
        wallet.spent_transaction_outputs = set()
        evaluations += 1
        try:
            t = create_spend_transaction(wallet, cs, (n_out * 10 - 1) * SASHIMI_PER_COIN, 0, to, change)
            try:
                validate_non_coinbase_transaction_by_itself(t)
                validate_non_coinbase_transaction_in_coinstate(t, head, cs)
                distinct.add(('size-boundary', 'valid', len(t.inputs)))
            except Exception as e:
                what = ("a spend needing %d inputs returns a %d-byte transaction that fails the node's validation (%s: %s) "
                        "instead of a valid transaction or an insufficient-funds report" % (len(t.inputs), len(t.serialize()), type(e).__name__, e))
                listed = [k for k in _common.known_findings('C14') if k.get('key') == 'oversize-spend']
                if listed and 'MAX_BLOCK_SIZE' in str(e) and len(t.inputs) > 1900:
                    known_lines.append("oversize-spend: " + what)
                else:
                    problems.append("2000 outputs on one key: " + what)
        except Exception as e:
            # refusing such a spend (with the record unchanged) is within the property
            if wallet.spent_transaction_outputs:
                problems.append("2000 outputs on one key: the attempt failed (%s) but the record of used outputs changed" % e)
            distinct.add(('size-boundary', 'refused'))
    res = {
        'coverage': {
            'evaluations': evaluations, 'distinct_nontrivial': len(distinct),
            'rule': "ledger states with (keys, reward blocks) in %s; per state %d random sequences of 6 calls mixing small / "
                    "exact-balance / over-balance / over-by-the-fee / exactly-one-output / all-but-one amounts with fees "
                    "0..5000; every call checked as described in the module docstring with the node's own validators. "
                    "distinct = (state, outcome, amount class, number of inputs); plus one spend needing 2000 inputs (size boundary)" % (layouts, 12 if tier == 'quick' else 40),
            'samples': samples, 'exhaustive': False,
            'bound': {'layouts': [list(x) for x in layouts], 'calls_per_sequence': 6},
        },
        'violations': [], 'known_findings': known_lines, 'problems': [],
    }
    if problems:
        res['violations'].append({'name': 'C14:bounded:spend-sequence', 'what': problems[:5], 'failing_input_found': True})
    return res
