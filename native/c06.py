"""C06, bounded part (NOT a proof): every single-bit flip and every truncation point of the encoding of fully valid blocks
on generated chains, decoded by the real decoder and offered to the real full validation against the same chain.

scrypt is replaced by sha256 in this process only (so that blocks with valid proof-of-work can be generated); the
checkpoint horizon is disabled in this process only (so that generated blocks are FULLY validated)."""
from __future__ import annotations
import random

from . import chainlib, _common


def _build(seed, n_plain, rng):
    """chain states and blocks: n_plain reward-only blocks, then a block with two signed spends, then one more"""
    from skepticoin.wallet import create_spend_transaction
    from skepticoin.signing import SECP256k1PublicKey
    from skepticoin.coinstate import CoinState
    wallet = chainlib.det_wallet(16, seed=seed + 40)
    keys = list(wallet.keypairs.keys())
    cs = CoinState.empty()
    ts = 1_700_000_000
    out = []        # (parent state, block, clock)
    for i in range(n_plain):
        b = chainlib.mine(cs, [], keys[i % 8], ts + 10 * i, valid_pow=True)
        if i == 0:
            cs = cs.add_block_no_validation(b)      # the first block has no parent to be validated against
            continue
        out.append((cs, b, ts + 10 * i))
        cs = cs.add_block(b, ts + 10 * i)
    other = chainlib.det_wallet(2, seed=seed + 41)
    to, change = [SECP256k1PublicKey(k) for k in other.keypairs]
    wallet.spent_transaction_outputs = set()
    txs = [create_spend_transaction(wallet, cs, 1000 + rng.randrange(1000), rng.randrange(0, 50), to, change),
           create_spend_transaction(wallet, cs, 77, 3, to, change)]
    t = ts + 10 * n_plain
    b = chainlib.mine(cs, txs, keys[9], t, valid_pow=True)
    out.append((cs, b, t))
    cs = cs.add_block(b, t)
    b2 = chainlib.mine(cs, [], keys[10], t + 10, valid_pow=True)
    out.append((cs, b2, t + 10))
    cs.add_block(b2, t + 10)
    return out


def _offer(parent, data, clock, original, original_bytes):
    """'undecodable' | 'rejected' | ('accepted', why) | ('same-id', ...)"""
    from skepticoin.datatypes import Block
    try:
        blk = Block.deserialize(data)
    except Exception:
        return 'undecodable'
    try:
        same_id = blk.hash() == original.hash()
        differs = blk.serialize() != original_bytes
    except Exception:
        same_id = differs = False
    try:
        parent.add_block(blk, clock)
    except Exception:
        return 'rejected'
    if data == original_bytes:
        return ('accepted', 'the unaltered block')
    # (a block whose transactions were altered keeps the id of its header: what matters is that it is never ACCEPTED)
    return ('accepted', "decodes to a block (height %s, %d transactions%s) that passes full validation" % (
        getattr(blk, 'height', '?'), len(blk.transactions),
        ", the ORIGINAL id with other content" if same_id and differs else ""))


def run(tier='quick', seed=0):
    _common.no_checkpoints()
    rng = random.Random(seed)
    problems = []
    evaluations = 0
    undec = rej = 0
    samples = []
    built = _build(seed, 3 if tier == 'quick' else 5, rng)
    # all generated blocks (thorough: a longer chain)
    chosen = built
    distinct = 0
    for parent, block, clock in chosen:
        data = block.serialize()
        # sanity: the unaltered encoding is accepted (otherwise the sweep would be vacuous)
        r0 = _offer(parent, data, clock, block, data)
        if not (isinstance(r0, tuple) and r0[0] == 'accepted'):
            problems.append("harness: the unaltered block at height %d is not accepted (%s)" % (block.height, r0))
            break
        for bit in range(8 * len(data)):
            m = bytearray(data)
            m[bit // 8] ^= 1 << (bit % 8)
            r = _offer(parent, bytes(m), clock, block, data)
            evaluations += 1
            if r == 'undecodable':
                undec += 1
            elif r == 'rejected':
                rej += 1
            else:
                problems.append("height %d, %d-byte block, bit %d of byte %d flipped: %s" % (block.height, len(data), bit % 8, bit // 8, r[1]))
                break
        if problems:
            break
        for cut in range(len(data)):
            r = _offer(parent, data[:cut], clock, block, data)
            evaluations += 1
            if r == 'undecodable':
                undec += 1
            elif r == 'rejected':
                rej += 1
            else:
                problems.append("height %d, block truncated to %d of %d bytes: %s" % (block.height, cut, len(data), r[1]))
                break
        if problems:
            break
        distinct += 1
        samples.append({'height': block.height, 'bytes': len(data), 'transactions': len(block.transactions),
                        'flips': 8 * len(data), 'truncations': len(data)})
    res = {
        'coverage': {
            'evaluations': evaluations, 'distinct_nontrivial': rej,
            'rule': "for %d fully valid generated blocks (one with two signed spends): every single-bit flip and every "
                    "truncation of the encoding is decoded with Block.deserialize and offered to CoinState.add_block on the "
                    "same parent state and clock; outcome must be 'cannot be decoded' (%d) or 'rejected' (%d), never accepted, "
                    "never the original id with other content. Non-trivial = alterations that decode and reach validation"
                    % (distinct, undec, rej),
            'samples': samples, 'exhaustive': False,
            'bound': {'blocks': len(chosen), 'alterations': 'all single-bit flips and all truncation points of those blocks'},
        },
        'violations': [], 'known_findings': [], 'problems': [],
    }
    if problems:
        kind = 'harness' if problems[0].startswith('harness') else 'alteration-accepted'
        res['violations'].append({'name': 'C06:bounded:' + kind, 'what': problems[:5], 'failing_input_found': kind != 'harness'})
    return res
