"""C12, bounded part (NOT a proof): blocks assembled by the real MinerWatcher handlers on synthetic chains pass the node's
own full validation (the `add_block` inside the found-block handler returns), for several pool contents, clock values
relative to the head's timestamp and (thorough) across a retarget boundary.  scrypt is replaced by sha256 in this process
only; the checkpoint horizon is disabled in this process only."""
from __future__ import annotations
import random

from . import chainlib, _common


def _miner(cs, wallet, lp, relayed):
    from skepticoin.mining import MinerWatcher
    import skepticoin.mining as mining

    class NT:
        local_peer = lp
    mw = object.__new__(MinerWatcher)
    mw.network_thread = NT()
    mw.wallet = wallet
    mw.coinstate = cs
    mw.mining_args = {}
    mw.hash_stats = {}
    mw.public_key = wallet.get_annotated_public_key("x")
    mw.send_message = lambda *a: None
    mw.print_stats_line = lambda ts: None
    mining.save_wallet = lambda w: None
    return mw


def run(tier='quick', seed=0):
    _common.no_checkpoints()
    _common.fresh_block_store()
    import skepticoin.mining as mining
    import skepticoin.networking.remote_peer  # noqa
    from skepticoin.networking.local_peer import LocalPeer
    from skepticoin.blockstore import DefaultBlockStore
    from skepticoin.consensus import construct_summary_hash, get_block_subsidy, get_block_fees
    from skepticoin.wallet import create_spend_transaction
    from skepticoin.signing import SECP256k1PublicKey
    rng = random.Random(seed)
    problems = []
    samples = []
    evaluations = 0
    distinct = set()
    base_ts = 1_700_000_000
    lengths = [3, 6] if tier == 'quick' else [3, 6, 10079, 10080]
    for n in lengths:
        wallet = chainlib.det_wallet(64, seed=seed + n)     # enough keys: every found block pays a fresh one
        cs0 = chainlib.chain(n, wallet, start_ts=base_ts)
        DefaultBlockStore.instance.write_blocks_to_disk(sorted(cs0.block_by_hash.values(), key=lambda b: b.height))
        for pool_size in (0, 1, 2):
            for skew in (-3600, 0, 5, 3600):        # clock relative to the head's timestamp
                lp = LocalPeer()
                lp.chain_manager.set_coinstate(cs0)
                relayed = []
                lp.network_manager.broadcast_block = lambda b, r=relayed: r.append(b)
                other = chainlib.det_wallet(2, seed=99)
                to, change = [SECP256k1PublicKey(k) for k in other.keypairs]
                wallet.spent_transaction_outputs = set()
                fees_expected = 0
                for k in range(pool_size):
                    fee = rng.randrange(0, 1000)
                    t = create_spend_transaction(wallet, cs0, 10_000 + k, fee, to, change)
                    if not lp.chain_manager.add_transaction_to_pool(t):
                        problems.append("a wallet-built transaction was not admitted to the pool")
                    fees_expected += fee
                head = cs0.head()
                now = head.timestamp + skew
                mining.time = lambda now=now: now
                mw = _miner(cs0, wallet, lp, relayed)
                nonce = 0
                found = None
                # (after a retarget the target can be 4x harder: about one nonce in 1024 succeeds; the budget makes a miss
                # practically impossible, so that "no block found" cannot be an accident of the harness)
                while found is None and nonce < 60000:
                    mw.handle_request_scrypt_input_message(0, nonce)
                    summary, height, txs = mw.mining_args[0]
                    if summary.timestamp <= head.timestamp:
                        problems.append("candidate timestamp %d not later than the head's %d" % (summary.timestamp, head.timestamp))
                    sh = construct_summary_hash(summary, height)
                    # the validator's clock must not be more than 30 s behind the candidate's timestamp
                    mining.time = lambda now=now, s=summary: max(now, s.timestamp - 30)
                    try:
                        mw.handle_scrypt_output_message(0, sh)
                    except Exception as e:
                        problems.append("found-block handler raised %s: %s (chain length %d, pool %d, skew %d)"
                                        % (type(e).__name__, e, n, pool_size, skew))
                        break
                    mining.time = lambda now=now: now
                    if relayed:
                        found = relayed[0]
                    nonce += 1
                evaluations += 1
                if found is None:
                    if not problems:
                        problems.append("no block found within the nonce budget")
                    continue
                served = lp.chain_manager.coinstate
                if served.current_chain_hash != found.hash():
                    problems.append("found block is not the served head")
                reward = sum(o.value for o in found.transactions[0].outputs)
                if reward != get_block_subsidy(found.height) + fees_expected:
                    problems.append("reward %d != subsidy + fees %d" % (reward, get_block_subsidy(found.height) + fees_expected))
                if found.hash() not in [b.hash() for b in DefaultBlockStore.instance.read_blocks_from_disk()]:
                    problems.append("found block not in the store")
                distinct.add((n, pool_size, skew))
                if len(samples) < 3:
                    samples.append({'chain_length': n, 'pool': pool_size, 'clock_minus_head_ts': skew,
                                    'height': found.height, 'transactions': len(found.transactions)})
                if problems:
                    break
            if problems:
                break
        if problems:
            break
    res = {
        'coverage': {
            'evaluations': evaluations, 'distinct_nontrivial': len(distinct),
            'rule': "chains of length %s x pool of 0-2 wallet-built fee-paying transactions x clock = head.timestamp + "
                    "{-3600, 0, 5, 3600}: the real handlers assemble, a nonce is searched (sha256 instead of scrypt), the "
                    "found-block handler must return, serve the block as head, store and broadcast it, with reward = "
                    "subsidy + fees and timestamp later than the head's. distinct = (length, pool size, clock offset)" % lengths,
            'samples': samples, 'exhaustive': False,
            'bound': {'chain_lengths': lengths, 'pool_sizes': [0, 1, 2], 'clock_offsets': [-3600, 0, 5, 3600]},
        },
        'violations': [], 'known_findings': [], 'problems': [],
    }
    if problems:
        res['violations'].append({'name': 'C12:bounded:assembled-block-passes-own-validation', 'what': problems[:5],
                                  'failing_input_found': True})
    return res
