"""C18, evaluation on recorded data (exhaustive over that data, NOT a proof about other blocks): the built-in genesis block
and the recorded blocks of the real network (tests/testdata/chain/*) keep exactly their ids and pass FULL validation with
the real, unreplaced scrypt - every sub-validator, evidence recomputation included.  The checkpoint horizon is lifted in
this process only (below it the node skips in-chain validation by design), and the verdict of validate_block_in_coinstate
at checkpointed heights is probed with right and wrong ids."""
from __future__ import annotations
import os

from . import _common  # noqa: F401


def run(tier='quick', seed=0):
    import skepticoin.consensus as C
    from skepticoin.cheating import KNOWN_HASHES, MAX_KNOWN_HASH_HEIGHT
    from skepticoin.coinstate import CoinState
    from skepticoin.datatypes import Block
    from skepticoin.genesis import genesis_block_data
    from skepticoin.hash import sha256d
    from skepticoin.humans import computer, human
    problems = []
    evaluations = 0
    samples = []
    repo = os.environ.get('VERIF_REPO', '/repo')
    # ---- genesis: id, checkpoint 0, canonical bytes, stand-alone validation, evidence recomputation (real scrypt)
    g = Block.deserialize(genesis_block_data)
    evaluations += 1
    if g.serialize() != genesis_block_data:
        problems.append("genesis: decode-then-encode does not give back the built-in bytes")
    if g.hash() != sha256d(g.header.serialize()):
        problems.append("genesis: id is not sha256d of the header encoding")
    if 0 not in KNOWN_HASHES or computer(KNOWN_HASHES[0]) != g.hash():
        problems.append("genesis: checkpoint 0 (%s) is not the id of the built-in genesis block (%s)" % (KNOWN_HASHES.get(0), human(g.hash())))
    try:
        C.validate_block_by_itself(g, g.timestamp)
    except Exception as e:
        problems.append("genesis: stand-alone validation fails: %s: %s" % (type(e).__name__, e))
    try:
        ev = C.construct_pow_evidence(CoinState.empty(), g.header.summary, 0, g.transactions)
        if ev != g.header.pow_evidence:
            problems.append("genesis: recomputed proof-of-work evidence (real scrypt) differs from the recorded evidence")
    except Exception as e:
        problems.append("genesis: evidence recomputation raised %s: %s" % (type(e).__name__, e))
    cs = CoinState.empty().add_block_no_validation(g)
    # ---- recorded blocks, in height order, fully validated on top of each other
    d = os.path.join(repo, 'tests', 'testdata', 'chain')
    names = sorted(os.listdir(d)) if os.path.isdir(d) else []
    saved = C.MAX_KNOWN_HASH_HEIGHT
    C.MAX_KNOWN_HASH_HEIGHT = -1            # full validation also below the horizon (this process only)
    try:
        for name in names:
            data = open(os.path.join(d, name), 'rb').read()
            evaluations += 1
            try:
                b = Block.deserialize(data)
            except Exception as e:
                problems.append("%s: does not decode: %s: %s" % (name, type(e).__name__, e))
                continue
            if b.serialize() != data:
                problems.append("%s: decode-then-encode does not give back the recorded bytes" % name)
            want_h, want_id = name.split('-')
            if human(b.hash()) != want_id or b.height != int(want_h):
                problems.append("%s: recorded block has id %s at height %d" % (name, human(b.hash()), b.height))
            if b.hash() != sha256d(b.header.serialize()):
                problems.append("%s: id is not sha256d of the header encoding" % name)
            try:
                cs = cs.add_block(b, b.timestamp)
            except Exception as e:
                problems.append("%s: full validation (real scrypt) rejects the recorded block: %s: %s" % (name, type(e).__name__, e))
                break
            samples.append({'block': name[:24], 'transactions': len(b.transactions)})
    finally:
        C.MAX_KNOWN_HASH_HEIGHT = saved
    # ---- checkpoint verdicts of the real validator: right id passes, wrong id is refused, at every checkpointed height
    from skepticoin.datatypes import BlockHeader, BlockSummary, PowEvidence, Transaction, Input, Output, OutputReference
    from skepticoin.signing import CoinbaseData, SECP256k1PublicKey

    class Probe(Block):
        """a block object at a chosen height reporting a chosen id (the branch under test reads only height and hash())"""
        def __init__(self, height, the_id):
            summary = BlockSummary(height, b'\x01' * 32, b'\x02' * 32, 1, b'\x00' * 32, 0)
            super().__init__(BlockHeader(summary, PowEvidence(b'\x00' * 32, b'\x00' * 32, b'\x00' * 32)),
                             [Transaction([Input(OutputReference(b'\x00' * 32, 0), CoinbaseData(min(height, 2 ** 32 - 1), b''))],
                                          [Output(1, SECP256k1PublicKey(b'\x00' * 64))])], the_id)
    n_cp = 0
    if MAX_KNOWN_HASH_HEIGHT != max(KNOWN_HASHES):
        problems.append("MAX_KNOWN_HASH_HEIGHT (%s) is not the highest checkpointed height (%s)" % (MAX_KNOWN_HASH_HEIGHT, max(KNOWN_HASHES)))
    for h, hx in sorted(KNOWN_HASHES.items()):
        right = computer(hx)
        evaluations += 2
        n_cp += 1
        try:
            C.validate_block_in_coinstate(Probe(h, right), CoinState.empty())
        except Exception as e:
            problems.append("checkpoint %d: a block with the checkpointed id is refused (%s)" % (h, type(e).__name__))
        for wrong in (bytes([right[0] ^ 1]) + right[1:], right[:-1] + bytes([right[-1] ^ 0x80])):
            try:
                C.validate_block_in_coinstate(Probe(h, wrong), CoinState.empty())
                problems.append("checkpoint %d: a block with another id (%s) passes the checkpoint" % (h, human(wrong)[:16]))
            except C.ValidationError:
                pass
            except Exception as e:
                problems.append("checkpoint %d: unexpected %s for a wrong id" % (h, type(e).__name__))
        if len(problems) > 5:
            break
    res = {
        'coverage': {
            'evaluations': evaluations, 'distinct_nontrivial': 1 + len(samples) + n_cp,
            'rule': "the built-in genesis block and all %d recorded blocks (tests/testdata/chain): decode, re-encode "
                    "byte-identically, id == recorded id == sha256d(header encoding), checkpoint 0 == genesis id, and FULL "
                    "validation on top of each other with the real scrypt (horizon lifted in this process only); all %d "
                    "checkpointed heights probed with the right id (must pass) and two wrong ids (must be refused with "
                    "ValidationError). Exhaustive over the recorded data and the checkpoint table." % (len(names), n_cp),
            'samples': samples[:4], 'exhaustive': True,
            'bound': {'recorded_blocks': len(names) + 1, 'checkpoints': n_cp},
        },
        'violations': [], 'known_findings': [], 'problems': [],
    }
    if problems:
        res['violations'].append({'name': 'C18:recorded:real-blocks-or-checkpoints', 'what': problems[:6], 'failing_input_found': True})
    return res
