"""Synthetic chain builder used by witnesses and bounded stand-ins: real datatypes, real CoinState, real wallet keys.
Blocks are built by the repository's own construct_block_for_mining (scrypt replaced by sha256 in this process)."""
from . import _common
_common.fast_scrypt()
import ecdsa, hashlib
from skepticoin.coinstate import CoinState
from skepticoin.consensus import construct_block_for_mining, construct_block_for_mining_genesis
from skepticoin.signing import SECP256k1PublicKey
from skepticoin.wallet import Wallet
from skepticoin.params import INITIAL_TARGET


def det_wallet(n, seed=1):
    """wallet with n deterministic keys"""
    w = Wallet.empty()
    for i in range(n):
        secexp = int.from_bytes(hashlib.sha256(b"k%d-%d" % (seed, i)).digest(), "big") % (ecdsa.SECP256k1.order - 1) + 1
        sk = ecdsa.SigningKey.from_secret_exponent(secexp, curve=ecdsa.SECP256k1)
        pk = sk.verifying_key.to_string()
        w.keypairs[pk] = sk.to_string()
        w.unused_public_keys.append(pk)
    return w


def mine(coinstate, txs, pk_bytes, ts, valid_pow=False):
    """next block on the head of coinstate paying pk_bytes"""
    pk = SECP256k1PublicKey(pk_bytes)
    nonce = 0
    while True:
        if coinstate.current_chain_hash is None:
            b = construct_block_for_mining_genesis(txs, pk, ts, b"", nonce)
        else:
            b = construct_block_for_mining(coinstate, txs, pk, ts, b"", nonce)
        if not valid_pow or b.hash() < b.target:
            return b
        nonce += 1


def chain(n, wallet, start_ts=1_700_000_000, valid_pow=False):
    """coinstate with n blocks (genesis included), block i pays key i % len(keys)"""
    cs = CoinState.empty()
    keys = list(wallet.keypairs.keys())
    for i in range(n):
        b = mine(cs, [], keys[i % len(keys)], start_ts + i * 10, valid_pow)
        cs = cs.add_block_no_validation(b)
    return cs
