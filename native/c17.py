"""C17, bounded part (NOT a proof): the tree and inclusion-proof functions (recursive MerkleNode objects, outside the
executor's value-class subset) and the structural-edit statement with the real hash.

For every list length 1..N and every position: get_merkle_tree(l).hash() == get_merkle_root(l); get_proof(tree, i) reproduces
the commitment and contains the leaf (index i, value l[i]); every structural edit of the list (substitute, swap two entries,
remove, append, duplicate an entry - in particular the last one) changes get_merkle_root unless the list is unchanged."""
from __future__ import annotations
import hashlib
import random

from . import _common  # noqa: F401


def _leaves(node):
    if not node.children:
        return [node]
    out = []
    for c in node.children:
        out += _leaves(c)
    return out


def run(tier='quick', seed=0):
    from skepticoin.merkletree import get_merkle_root, get_merkle_tree, get_proof
    rng = random.Random(seed)
    n_max = 33 if tier == 'quick' else 130
    problems = []
    evaluations = 0
    distinct = 0
    samples = []
    for n in range(1, n_max + 1):
        ids = [hashlib.sha256(b"c17-%d-%d-%d" % (seed, n, k)).digest() for k in range(n)]
        root = get_merkle_root(list(ids))
        tree = get_merkle_tree(list(ids))
        evaluations += 1
        if tree.hash() != root:
            problems.append("length %d: get_merkle_tree(l).hash() differs from get_merkle_root(l)" % n)
            break
        for i in range(n):
            p = get_proof(tree, i)
            evaluations += 1
            distinct += 1
            if p.hash() != root:
                problems.append("length %d position %d: the inclusion proof does not reproduce the commitment" % (n, i))
                break
            lv = [x for x in _leaves(p) if x.index == i and x.value == ids[i] and not x.children]
            if len(lv) != 1:
                problems.append("length %d position %d: the inclusion proof does not contain the entry at that position" % (n, i))
                break
        if problems:
            break
        # structural edits
        edits = []
        other = hashlib.sha256(b"other-%d" % n).digest()
        positions = range(n) if n <= 12 or tier != 'quick' else sorted(set([0, 1, n // 2, n - 2, n - 1] + rng.sample(range(n), 4)))
        for i in positions:
            edits.append(("substitute %d" % i, ids[:i] + [other] + ids[i + 1:]))
            edits.append(("remove %d" % i, ids[:i] + ids[i + 1:]))
            edits.append(("duplicate %d" % i, ids[:i + 1] + [ids[i]] + ids[i + 1:]))
            edits.append(("insert before %d" % i, ids[:i] + [other] + ids[i:]))
            for j in positions:
                if i < j:
                    sw = list(ids)
                    sw[i], sw[j] = sw[j], sw[i]
                    edits.append(("swap %d %d" % (i, j), sw))
        edits.append(("append", ids + [other]))
        edits.append(("duplicate last twice", ids + [ids[-1], ids[-1]]))
        edits.append(("duplicate tail pair", ids + ids[-2:]))
        for what, l2 in edits:
            if not l2:
                continue
            evaluations += 1
            if l2 != ids and get_merkle_root(list(l2)) == root:
                problems.append("length %d: edit '%s' leaves the commitment unchanged" % (n, what))
                break
            distinct += 1
        if problems:
            break
        if n in (1, 2, 3, 7):
            samples.append({'length': n, 'positions': n, 'edits': len(edits)})
    res = {
        'coverage': {
            'evaluations': evaluations, 'distinct_nontrivial': distinct,
            'rule': "every list length 1..%d of distinct 32-byte ids: tree hash == root; for every position the inclusion proof "
                    "reproduces the root and contains the leaf (index, value); substitute / remove / duplicate / insert at "
                    "%s positions, swaps of position pairs, append, duplicate-last (twice, and tail pair): the root changes. "
                    "distinct = (length, position) proofs + edits" % (n_max, "all" if tier != 'quick' else "all (<= 12 entries) or 9 chosen"),
            'samples': samples, 'exhaustive': False, 'bound': {'max_length': n_max},
        },
        'violations': [], 'known_findings': [], 'problems': [],
    }
    if problems:
        res['violations'].append({'name': 'C17:bounded:tree-proof-or-edit', 'what': problems[:5], 'failing_input_found': True})
    return res
