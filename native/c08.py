"""C08 (bounded; the level claimed for this property is `exploration`): the real BlockStore on a real sqlite file.

Block trees are generated on top of the built-in genesis block (the store inserts it itself): reward-only blocks, blocks
with multi-input / multi-output signed spends, competing forks, a reorganisation.  The blocks are handed to the store in a
parent-before-child arrival order, cut into flushes in several ways; after EVERY flush the file is opened by a new
BlockStore ("restart") and read back:

  * exactly the blocks written so far (plus genesis), each with the id it was written under and byte-identical content,
  * every parent before its children,
  * the ledger rebuilt from what was read (CoinState.add_block_no_validation in the order read) has the same unspent set at
    every block and a head of the same height as the in-memory state.

scrypt is replaced by sha256 in this process only (block construction)."""
from __future__ import annotations
import os
import random
import shutil
import tempfile

from . import chainlib, _common


def _utxo_fp(u):
    return tuple(sorted((r.hash, r.index, o.value, o.public_key.public_key) for r, o in u.items()))


def _tree(rng, wallet, shape, spends, share_tx=False):
    """blocks (without genesis) of a tree: shape[i] = parent index of block i+1 (0 = genesis); returns (blocks, state)"""
    from skepticoin.coinstate import CoinState
    from skepticoin.datatypes import Block
    from skepticoin.genesis import genesis_block_data
    from skepticoin.wallet import create_spend_transaction
    from skepticoin.signing import SECP256k1PublicKey
    keys = list(wallet.keypairs.keys())
    g = Block.deserialize(genesis_block_data)
    base = CoinState.empty().add_block_no_validation(g)
    states = [base]           # linear state ending at block i (construction does not depend on fork handling)
    blocks = [g]
    full = base
    other = chainlib.det_wallet(2, seed=777)
    to, change = [SECP256k1PublicKey(k) for k in other.keypairs]
    shared = {}
    for i, parent in enumerate(shape):
        cs = states[parent]
        txs = []
        if spends and cs.head().height >= 2:
            wallet.spent_transaction_outputs = set()
            try:
                if share_tx and parent in shared:
                    txs.append(shared[parent])          # the same pending transaction ends up in two sibling blocks (forks)
                else:
                    n_rewards = rng.choice([1, 2])
                    t = create_spend_transaction(wallet, cs, (10 * n_rewards - 5) * 100_000_000 - rng.randrange(0, 1000),
                                                 rng.randrange(0, 500), to, change)
                    txs.append(t)
                    if share_tx:
                        shared[parent] = t
            except Exception:
                pass
        b = chainlib.mine(cs, txs, keys[(i + 1) % len(keys)], 1_700_000_000 + 10 * (i + 1) + parent)
        b = Block.deserialize(b.serialize())
        blocks.append(b)
        states.append(cs.add_block_no_validation(b))
        full = full.add_block_no_validation(b)
    return blocks, full


def _check_reload(path, written, mem_state, where, problems, known_lines, allow_shared):
    from skepticoin.blockstore import BlockStore
    from skepticoin.coinstate import CoinState
    st = BlockStore(path)
    try:
        got = list(st.read_blocks_from_disk())
    finally:
        st.close()
    n = 0
    by_id = {b.hash(): b for b in written}
    seen = set()
    pos = {}
    for k, b in enumerate(got):
        pos[b.hash()] = k
    if set(pos) != set(by_id):
        problems.append("%s: the store returns %d blocks, %d were written (ids differ)" % (where, len(pos), len(by_id)))
        return n
    tx_owner = {}
    for b in written:
        for t in b.transactions:
            tx_owner.setdefault(t.hash(), []).append(b.hash())
    rebuilt = CoinState.empty()
    for b in got:
        n += 1
        want = by_id[b.hash()]
        if b.height > 0 and pos.get(b.header.summary.previous_block_hash, 10 ** 9) > pos[b.hash()]:
            problems.append("%s: block at height %d is read before its parent" % (where, b.height))
        if b.serialize() != want.serialize():
            missing = [t for t in want.transactions if t.hash() not in {x.hash() for x in b.transactions}]
            shared = [t for t in missing if len(tx_owner.get(t.hash(), [])) > 1]
            what = ("block %s (height %d) reads back with %d of its %d transactions; the missing one is also part of "
                    "another stored block (competing fork)" % (b.hash().hex()[:12], b.height, len(b.transactions), len(want.transactions)))
            if allow_shared and missing and len(shared) == len(missing) and \
                    [k_ for k_ in _common.known_findings('C08') if k_.get('key') == 'shared-transaction']:
                if not known_lines:
                    known_lines.append("shared-transaction: " + what)
                return n            # the rebuilt ledger differs as a consequence; nothing further to compare in this tree
            problems.append("%s: block %s (height %d) reads back with other bytes than were written" % (where, b.hash().hex()[:12], b.height))
            return n
        try:
            rebuilt = rebuilt.add_block_no_validation(b)
        except Exception as e:
            problems.append("%s: the ledger cannot be rebuilt from the store at height %d (%s: %s)" % (where, b.height, type(e).__name__, e))
            return n
    for h in by_id:
        if h not in mem_state.unspent_transaction_outs_by_hash:
            continue
        if _utxo_fp(rebuilt.unspent_transaction_outs_by_hash[h]) != _utxo_fp(mem_state.unspent_transaction_outs_by_hash[h]):
            problems.append("%s: rebuilt unspent set at block %s differs from the in-memory one" % (where, h.hex()[:12]))
            return n
    return n


def run(tier='quick', seed=0):
    from skepticoin.blockstore import BlockStore
    from skepticoin.coinstate import CoinState
    rng = random.Random(seed)
    problems = []
    known_lines = []
    evaluations = 0
    distinct = 0
    samples = []
    wallet = chainlib.det_wallet(6, seed=seed + 3)
    shapes = [
        ([0, 1, 2, 3, 4], True, False),                 # a line with spends
        ([0, 1, 2, 2, 3, 4, 5], True, False),           # fork at height 2, both branches continue
        ([0, 1, 2, 3, 2, 5, 6, 7], True, False),        # the side branch overtakes: reorganisation
        ([0, 0, 0, 1, 2], False, False),                # three competing blocks at height 1
        ([0, 1, 2, 3, 3, 4, 5], True, True),            # the same pending transaction in blocks of two forks
    ]
    if tier != 'quick':
        shapes += [([0] + [rng.randrange(max(0, i - 2), i + 1) for i in range(1, 14)], True, False) for _ in range(6)]
        shapes += [([0, 1, 2, 3, 3, 4, 5, 6, 7], True, True)]
    # two long competing branches from genesis (more than a thousand stored blocks, siblings at every height)
    n_long = 620 if tier == 'quick' else 1600
    long_shape = [0, 0] + [i for i in range(1, 2 * n_long - 1)]        # block i+1's parent: two interleaved lines
    shapes.append((long_shape, False, False))
    d = tempfile.mkdtemp(prefix="skv-c08-")
    try:
        for si, (shape, spends, share) in enumerate(shapes):
            blocks, _ = _tree(rng, wallet, shape, spends, share)
            n_tx = sum(len(b.transactions) - 1 for b in blocks)
            batchings = [[len(blocks) - 1], [1] * (len(blocks) - 1), [2, 1, 3, 50]] if tier == 'quick' else \
                [[len(blocks) - 1], [1] * (len(blocks) - 1), [2, 1, 3, 50], [3, 3, 50], [1, 4, 50]]
            if len(blocks) > 200:
                batchings = [[len(blocks) // 2, len(blocks)]]
            for bi, batching in enumerate(batchings):
                path = os.path.join(d, "t%d_%d.db" % (si, bi))
                store = BlockStore(path)
                mem = CoinState.empty().add_block_no_validation(blocks[0])
                written = [blocks[0]]
                k = 1
                for size in batching:
                    chunk = blocks[k:k + size]
                    if not chunk:
                        break
                    for b in chunk:
                        store.add_block_to_buffer(b)
                        mem = mem.add_block_no_validation(b)
                        written.append(b)
                    k += len(chunk)
                    store.flush_blocks_to_disk()
                    shown = shape if len(shape) <= 16 else "%s...(%d blocks, two interleaved branches)" % (shape[:6], len(shape))
                    where = "tree %s (shared transaction: %s), flushes %s, after %d blocks" % (shown, share, batching[:6], k - 1)
                    evaluations += _check_reload(path, written, mem, where, problems, known_lines, share)
                    if problems:
                        break
                store.close()
                distinct += 1
                if problems:
                    break
            if len(samples) < 4:
                samples.append({'tree_parent_indices': shape[:16], 'spends': n_tx, 'shared_transaction': share})
            if problems:
                break
    finally:
        shutil.rmtree(d, ignore_errors=True)
    res = {
        'coverage': {
            'evaluations': evaluations, 'distinct_nontrivial': distinct,
            'rule': "block trees on top of the built-in genesis (line with spends, fork with both branches continuing, "
                    "reorganisation, three siblings, the same transaction in two forks%s), each written in %d batchings of "
                    "flushes with a reload by a NEW BlockStore after every flush: ids, bytes, parent-before-child order, "
                    "rebuilt unspent sets and head height compared with the in-memory state. evaluations = blocks compared; "
                    "distinct = (tree, batching)" % ("; thorough: 6 random trees of 14 blocks" if tier != 'quick' else "",
                                                     3 if tier == 'quick' else 5),
            'samples': samples, 'exhaustive': False, 'bound': {'trees': len(shapes), 'max_blocks': max(len(s[0]) for s in shapes)},
        },
        'violations': [], 'known_findings': known_lines, 'problems': [],
    }
    if problems:
        res['violations'].append({'name': 'C08:bounded:store-round-trip', 'what': problems[:5], 'failing_input_found': True})
    return res
