"""C07, bounded part (NOT a proof): the pieces of the canonical-identity property that the contracts leave to assumptions.

  vlq      the variable-length-quantity encoder / decoder (trusted summaries in contracts/codec.py): every value in a range
           and around every 7-bit boundary encodes, decodes to itself with the cursor exactly behind it; every byte string up
           to a length bound that the decoder accepts is the encoder's output for the value returned
  rt1      encode-then-decode returns an equal value (field by field) with nothing left over, for generated values of every
           consensus class and every wire message class
  rt2      byte strings derived from real encodings by single-byte edits, truncation and trailing data: whenever a decoder
           accepts, re-encoding gives back exactly the consumed bytes, and the ids are sha256d of them
  store    blocks written to a fresh sqlite store and read back have the ids sha256d(header encoding) / sha256d(encoding)
           and the bytes that went in
"""
from __future__ import annotations
import io
import itertools
import random

from . import _common


def _deep_equal(a, b, path="value"):
    """field-by-field equality of two decoded/encoded objects (cached ids are not content)"""
    from ipaddress import IPv6Address
    if type(a) is not type(b):
        return "%s: %s vs %s" % (path, type(a).__name__, type(b).__name__)
    if isinstance(a, (int, bytes, str, bool, type(None), IPv6Address)):
        return None if a == b else "%s: %r vs %r" % (path, a, b)
    if isinstance(a, (list, tuple)):
        if len(a) != len(b):
            return "%s: length %d vs %d" % (path, len(a), len(b))
        for k, (x, y) in enumerate(zip(a, b)):
            r = _deep_equal(x, y, "%s[%d]" % (path, k))
            if r:
                return r
        return None
    da = {k: v for k, v in vars(a).items() if k != 'cached_hash'}
    db = {k: v for k, v in vars(b).items() if k != 'cached_hash'}
    if set(da) != set(db):
        return "%s: fields %s vs %s" % (path, sorted(da), sorted(db))
    for k in sorted(da):
        r = _deep_equal(da[k], db[k], path + "." + k)
        if r:
            return r
    return None


# ------------------------------------------------------------------------------------------------------------- vlq

def _vlq(tier, rng, problems):
    from skepticoin.serialization import stream_serialize_vlq, stream_deserialize_vlq
    n = 0
    upper = 40_000 if tier == 'quick' else 2_200_000
    values = list(range(upper))
    for k in range(1, 12):
        values += [v for v in range(2 ** (7 * k) - 3, 2 ** (7 * k) + 4)]
        values += [2 ** (7 * k - 1) - 1, 2 ** (7 * k - 1), 2 ** (7 * k - 1) + 1]
    values += [rng.getrandbits(rng.randrange(1, 80)) for _ in range(2000)]
    seen_enc = {}
    for i in values:
        f = io.BytesIO()
        stream_serialize_vlq(f, i)
        e = f.getvalue()
        n += 1
        if len(e) != i.bit_length() // 7 + 1 or any(b < 128 for b in e[:-1]) or e[-1] >= 128:
            problems.append("vlq: encoding of %d is %s (continuation bits / length)" % (i, e.hex()))
            break
        if seen_enc.setdefault(e, i) != i:
            problems.append("vlq: %d and %d share the encoding %s" % (i, seen_enc[e], e.hex()))
            break
        g = io.BytesIO(e + b'\xaa\x01')
        try:
            r = stream_deserialize_vlq(g)
        except Exception as ex:
            problems.append("vlq: decoder rejects the encoding %s of %d (%s)" % (e.hex(), i, type(ex).__name__))
            break
        if r != i or g.tell() != len(e):
            problems.append("vlq: %s decodes to %d consuming %d bytes; it encodes %d" % (e.hex(), r, g.tell(), i))
            break
    # every byte string the decoder accepts is what the encoder writes for the value returned
    def strings():
        for a in range(256):
            yield bytes([a])
        for a in range(256):
            for b in range(256):
                yield bytes([a, b])
        third = range(256) if tier != 'quick' else (0, 1, 0x3f, 0x40, 0x7f, 0x80, 0x81, 0xff)
        first = range(128, 256) if tier != 'quick' else (0x80, 0x81, 0x82, 0xbf, 0xc0, 0xff)
        for a in first:
            for b in range(128, 256):
                for c in third:
                    yield bytes([a, b, c])
        for _ in range(3000 if tier == 'quick' else 30000):
            ln = rng.randrange(3, 9)
            yield bytes([rng.randrange(128, 256) if rng.random() < 0.8 else rng.randrange(256) for _ in range(ln - 1)]
                        + [rng.randrange(128)])
    accepted = 0
    for s in strings():
        g = io.BytesIO(s)
        n += 1
        try:
            r = stream_deserialize_vlq(g)
        except Exception:
            continue
        accepted += 1
        f = io.BytesIO()
        stream_serialize_vlq(f, r)
        if f.getvalue() != s[:g.tell()]:
            problems.append("vlq: decoder accepts %s as %d, whose encoding is %s (second encoding of one value)"
                            % (s[:g.tell()].hex(), r, f.getvalue().hex()))
            break
    return n, accepted


# ------------------------------------------------------------------------------------------------------ generators

def _gens(rng):
    from skepticoin.datatypes import (OutputReference, Input, Output, Transaction, PowEvidence, BlockSummary, BlockHeader,
                                      Block)
    from skepticoin.signing import (SECP256k1PublicKey, SECP256k1Signature, SignableEquivalent, CoinbaseData)

    def rb(n):
        k = rng.random()
        if k < 0.15:
            return bytes(n)
        if k < 0.3:
            return b'\xff' * n
        return bytes(rng.randrange(256) for _ in range(n))

    def ri(bits):
        k = rng.random()
        if k < 0.15:
            return 0
        if k < 0.3:
            return 2 ** bits - 1
        if k < 0.5:
            return rng.randrange(0, 300)
        return rng.getrandbits(bits)

    def ref():
        return OutputReference(rb(32), ri(32))

    def sig():
        k = rng.randrange(3)
        if k == 0:
            return SECP256k1Signature(rb(64))
        if k == 1:
            return SignableEquivalent()
        return CoinbaseData(rng.choice([0, 1, 63, 64, 127, 128, 16383, 16384, ri(32)]), rb(rng.choice([0, 1, 5, 255])))

    def inp():
        return Input(ref(), sig())

    def out():
        return Output(ri(64), SECP256k1PublicKey(rb(64)))

    def tx():
        ni = rng.choice([0, 1, 1, 2, 3, 64, 127, 128, 130]) if rng.random() < 0.3 else rng.randrange(0, 4)
        no = rng.choice([0, 1, 2, 64, 128]) if rng.random() < 0.2 else rng.randrange(0, 4)
        return Transaction([inp() for _ in range(ni)], [out() for _ in range(no)])

    def pow_():
        return PowEvidence(rb(32), rb(32), rb(32))

    def summary():
        return BlockSummary(rng.choice([0, 1, 63, 64, 127, 128, 16383, 16384, ri(30)]), rb(32), rb(32), ri(32), rb(32), ri(32))

    def header():
        return BlockHeader(summary(), pow_())

    def block():
        return Block(header(), [tx() for _ in range(rng.randrange(0, 4))])

    return {'OutputReference': (OutputReference, ref), 'Input': (Input, inp), 'Output': (Output, out),
            'Transaction': (Transaction, tx), 'PowEvidence': (PowEvidence, pow_), 'BlockSummary': (BlockSummary, summary),
            'BlockHeader': (BlockHeader, header), 'Block': (Block, block)}


def _msg_gens(rng):
    from ipaddress import IPv6Address
    from skepticoin.networking import messages as M
    gens = _gens(rng)

    def rb(n):
        return bytes(rng.randrange(256) for _ in range(n))

    def ip():
        return IPv6Address(rb(16))

    def hello():
        return M.HelloMessage([M.SupportedVersion(rng.randrange(256)) for _ in range(rng.randrange(0, 3))], ip(),
                              rng.randrange(65536), ip(), rng.randrange(65536), rng.getrandbits(32),
                              rb(rng.choice([0, 1, 20, 255])))

    def getblocks():
        return M.GetBlocksMessage([rb(32) for _ in range(rng.choice([0, 1, 2, 64, 130]))], rb(32))

    def inv():
        return M.InventoryMessage([M.InventoryItem(rng.choice([M.DATA_BLOCK, M.DATA_HEADER, M.DATA_TRANSACTION]), rb(32))
                                   for _ in range(rng.choice([0, 1, 3, 128]))])

    def getdata():
        return M.GetDataMessage(rng.choice([M.DATA_BLOCK, M.DATA_HEADER, M.DATA_TRANSACTION]), rb(32))

    def data():
        k = rng.randrange(3)
        if k == 0:
            return M.DataMessage(M.DATA_BLOCK, gens['Block'][1]())
        if k == 1:
            return M.DataMessage(M.DATA_HEADER, gens['BlockHeader'][1]())
        return M.DataMessage(M.DATA_TRANSACTION, gens['Transaction'][1]())

    def getpeers():
        return M.GetPeersMessage()

    def peers():
        return M.PeersMessage([M.Peer(rng.getrandbits(32), ip(), rng.randrange(65536)) for _ in range(rng.choice([0, 1, 5, 130]))])

    def header():
        return M.MessageHeader(rng.getrandbits(32), rng.getrandbits(32), rng.getrandbits(32), rng.getrandbits(64))

    return {'HelloMessage': (M.Message, hello), 'GetBlocksMessage': (M.Message, getblocks),
            'InventoryMessage': (M.Message, inv), 'GetDataMessage': (M.Message, getdata), 'DataMessage': (M.Message, data),
            'GetPeersMessage': (M.Message, getpeers), 'PeersMessage': (M.Message, peers),
            'MessageHeader': (M.MessageHeader, header)}


# ------------------------------------------------------------------------------------------------------- rt1 / rt2

def _ids(obj, consumed, problems, what):
    """ids of a decoded consensus object are sha256d of canonical bytes"""
    from skepticoin.hash import sha256d
    from skepticoin.datatypes import Transaction, Block, BlockHeader, BlockSummary
    if isinstance(obj, Transaction):
        if obj.hash() != sha256d(obj.serialize()) or obj.hash() != sha256d(consumed):
            problems.append("%s: transaction id is not sha256d of its encoding" % what)
    elif isinstance(obj, Block):
        if obj.hash() != sha256d(obj.header.serialize()):
            problems.append("%s: block id is not sha256d of its header's encoding" % what)
        for t in obj.transactions:
            if t.hash() != sha256d(t.serialize()):
                problems.append("%s: id of a transaction inside a block is not sha256d of its encoding" % what)
    elif isinstance(obj, (BlockHeader, BlockSummary)):
        if obj.hash() != sha256d(obj.serialize()):
            problems.append("%s: header id is not sha256d of its encoding" % what)


def _rt(tier, rng, problems):
    n_rt1 = n_rt2 = accepted = 0
    per_class = 40 if tier == 'quick' else 400
    edits_per = 60 if tier == 'quick' else 300
    consensus = _gens(rng)
    messages = _msg_gens(rng)
    samples = []
    for table, is_consensus in ((consensus, True), (messages, False)):
        for name, (decoder, gen) in table.items():
            for _ in range(per_class):
                v = gen()
                try:
                    e = v.serialize()
                except Exception as ex:
                    problems.append("rt1: generated %s does not encode (%s)" % (name, type(ex).__name__))
                    break
                f = io.BytesIO(e + b'\x5a\x5a\x5a')
                try:
                    r = decoder.stream_deserialize(f)
                except Exception as ex:
                    problems.append("rt1: the encoding of a %s is rejected (%s: %s): %s" % (name, type(ex).__name__, ex, e.hex()[:120]))
                    break
                n_rt1 += 1
                d = _deep_equal(v, r)
                if d or f.tell() != len(e):
                    problems.append("rt1: %s does not survive encode-then-decode (%s; consumed %d of %d): %s"
                                    % (name, d, f.tell(), len(e), e.hex()[:120]))
                    break
                if is_consensus:
                    _ids(r, e, problems, "rt1 " + name)
                    _ids(v, e, problems, "built in memory " + name)
                    # one encoding per value: edited encodings that still decode must re-encode to what was consumed
                    positions = list(range(len(e))) if len(e) <= edits_per else sorted(rng.sample(range(len(e)), edits_per))
                    for p in positions:
                        for nb in {0, 1, 2, 0x7f, 0x80, 0x81, 0xff, e[p] ^ 1, e[p] ^ 0x80, (e[p] + 1) & 0xff}:
                            if nb == e[p]:
                                continue
                            m = e[:p] + bytes([nb]) + e[p + 1:] + b'\x00\x00\x00'
                            g = io.BytesIO(m)
                            n_rt2 += 1
                            try:
                                r2 = decoder.stream_deserialize(g)
                            except Exception:
                                continue
                            accepted += 1
                            c = m[:g.tell()]
                            try:
                                again = r2.serialize()
                            except Exception as ex:
                                problems.append("rt2: %s decoded from %s does not re-encode (%s)" % (name, c.hex()[:120], type(ex).__name__))
                                break
                            if again != c:
                                problems.append("rt2: %s: decoder accepts %s which re-encodes to %s" % (name, c.hex()[:160], again.hex()[:160]))
                                break
                            _ids(r2, c, problems, "rt2 " + name)
                        if problems:
                            break
                    # a non-minimal length prefix / height: insert a redundant leading 0x80 octet before each octet
                    for p in positions[:20]:
                        m = e[:p] + b'\x80' + e[p:]
                        g = io.BytesIO(m)
                        n_rt2 += 1
                        try:
                            r2 = decoder.stream_deserialize(g)
                        except Exception:
                            continue
                        accepted += 1
                        c = m[:g.tell()]
                        if r2.serialize() != c:
                            problems.append("rt2: %s: decoder accepts %s which re-encodes to %s" % (name, c.hex()[:160], r2.serialize().hex()[:160]))
                            break
                if problems:
                    break
                if len(samples) < 4 and rng.random() < 0.05:
                    samples.append({'class': name, 'encoding_bytes': len(e)})
            if problems:
                break
        if problems:
            break
    return n_rt1, n_rt2, accepted, samples


# ------------------------------------------------------------------------------------------------------------ store

def _store(tier, rng, problems):
    """ids of objects read back from a fresh sqlite store"""
    from skepticoin.blockstore import BlockStore
    from skepticoin.datatypes import Transaction, Input, Output, OutputReference, Block
    from skepticoin.signing import SECP256k1PublicKey, SECP256k1Signature
    from skepticoin.hash import sha256d
    import os
    import tempfile
    import shutil
    from skepticoin.datatypes import BlockHeader, BlockSummary, PowEvidence
    from skepticoin.signing import CoinbaseData
    from skepticoin.consensus import calc_merkle_root_hash
    keys = [bytes([k + 1]) * 64 for k in range(4)]
    n_blocks = 6 if tier == 'quick' else 14
    sent = []
    zeros = bytes(32)
    prev_hash = zeros
    for i in range(n_blocks):
        # the store does not validate: blocks are assembled directly from the datatypes (coinbase first)
        txs = [Transaction([Input(OutputReference(zeros, 0), CoinbaseData(i, b'c07 store'))],
                           [Output(10 * 100_000_000, SECP256k1PublicKey(keys[i % 4]))])]
        if i >= 2:
            prev_cb = sent[i - 2].transactions[0]
            refs = [(prev_cb.hash(), 0)]
            # references whose transaction hash is all-zero at several indices (only (zeros, 0) is the coinbase's "thin air")
            if i % 2 == 0:
                refs.append((zeros, rng.choice([1, 7, 0xffffffff])))
            txs.append(Transaction([Input(OutputReference(h, k), SECP256k1Signature(bytes([i + 1]) * 64)) for h, k in refs],
                                   [Output(1234 + i, SECP256k1PublicKey(keys[i % 4]))]))
            if i % 3 == 0:
                txs.append(Transaction([Input(OutputReference(zeros, rng.choice([2, 0xfffffffe])), SECP256k1Signature(b'\x07' * 64))],
                                       [Output(5 + i, SECP256k1PublicKey(keys[0])), Output(0, SECP256k1PublicKey(keys[1]))]))
                # (5 + i: every transaction of this test is distinct - the same transaction in two stored blocks is the
                # known C08 finding `shared-transaction`, not what is tested here)
        summary = BlockSummary(i, prev_hash, calc_merkle_root_hash(txs), 1_700_000_000 + 10 * i, b'\x00' + b'\xff' * 31, i)
        b = Block(BlockHeader(summary, PowEvidence(bytes([i]) * 32, b'c' * 32, b'b' * 32)), txs)
        b = Block.deserialize(b.serialize())        # the node works with what it decodes
        prev_hash = b.hash()
        sent.append(b)
    d = tempfile.mkdtemp(prefix="skv-c07-")
    n = 0
    try:
        path = os.path.join(d, 'c07.db')
        st = BlockStore(path)
        st.write_blocks_to_disk(sent)
        st.connection.close() if hasattr(st, 'connection') else None
        st2 = BlockStore(path)          # "restart"
        got = list(st2.read_blocks_from_disk())
        from skepticoin.genesis import genesis_block_data
        sent = [Block.deserialize(genesis_block_data)] + sent      # a new store starts with the genesis block
        if len(got) != len(sent):
            problems.append("store: %d blocks written, %d read back" % (len(sent), len(got)))
        by_hash = {b.hash(): b for b in sent}
        for g in got:
            n += 1
            want = by_hash.get(g.hash())
            if g.hash() != sha256d(g.header.serialize()):
                problems.append("store: id of block at height %d read from the store is not sha256d of its header encoding" % g.height)
            if want is None:
                problems.append("store: a block read back has an id that was never written")
                continue
            if g.serialize() != want.serialize():
                problems.append("store: block at height %d read back has other bytes than were written" % g.height)
            for t, tw in zip(g.transactions, want.transactions):
                n += 1
                if t.hash() != sha256d(t.serialize()):
                    problems.append("store: id of a transaction read from the store (block height %d) is not sha256d of its "
                                    "encoding: id %s, encoding hashes to %s" % (g.height, t.hash().hex()[:16], sha256d(t.serialize()).hex()[:16]))
                if t.hash() != tw.hash():
                    problems.append("store: a transaction changed its id in the store")
            if problems:
                break
    finally:
        shutil.rmtree(d, ignore_errors=True)
    return n


def run(tier='quick', seed=0):
    rng = random.Random(seed)
    problems = []
    n_vlq, acc_vlq = _vlq(tier, rng, problems)
    n_rt1 = n_rt2 = acc = n_store = 0
    samples = []
    if not problems:
        n_rt1, n_rt2, acc, samples = _rt(tier, rng, problems)
    if not problems:
        n_store = _store(tier, rng, problems)
    res = {
        'coverage': {
            'evaluations': n_vlq + n_rt1 + n_rt2 + n_store,
            'distinct_nontrivial': acc_vlq + n_rt1 + acc + n_store,
            'rule': "vlq: %d encoder/decoder evaluations (a contiguous range from 0, all 7-bit boundaries up to 2^77, random "
                    "values up to 80 bits; every 1- and 2-byte string, structured 3-byte strings and random longer ones) of "
                    "which %d strings were accepted by the decoder and compared with the encoder's output. rt1: %d generated "
                    "values over the 8 consensus classes, 7 message classes and the message header, decoded from their "
                    "encoding followed by trailing bytes and compared field by field. rt2: %d edited encodings (single-byte "
                    "edits, inserted 0x80 octets, trailing data) of which %d were accepted and re-encoded; ids compared with "
                    "sha256d of the bytes. store: %d blocks/transactions read back from a fresh sqlite store. "
                    "Non-trivial = accepted strings + rt1 values + store objects"
                    % (n_vlq, acc_vlq, n_rt1, n_rt2, acc, n_store),
            'samples': samples, 'exhaustive': False,
            'bound': {'vlq_contiguous_range': 40_000 if tier == 'quick' else 2_200_000, 'vlq_exhaustive_string_length': 2,
                      'values_per_class': 40 if tier == 'quick' else 400},
        },
        'violations': [], 'known_findings': [], 'problems': [],
    }
    if problems:
        res['violations'].append({'name': 'C07:bounded:codec-roundtrip-or-id', 'what': problems[:5],
                                  'failing_input_found': True})
    return res
