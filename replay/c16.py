"""C16 replay: the counterexample height (and its neighbours at the era boundaries) on the real get_block_subsidy /
validate_sashimi_range, against the documented schedule computed independently."""
import os, sys, tempfile
from ._model import ints


def replay(name, bad, tier='quick', seed=0):
    sys.path.insert(0, os.environ.get('VERIF_REPO', '/repo'))
    from skepticoin.consensus import get_block_subsidy
    vals, model = ints(bad)
    cands = []
    if 'height' in vals:
        cands.append(vals['height'])
    # directed search shaped by the obligation: all era boundaries +-1 and the first heights
    for era in range(0, 70):
        for d in (-1, 0, 1):
            h = era * 1_050_000 + d
            if h >= 0:
                cands.append(h)

    def documented(h):
        era = h // 1_050_000
        return (10 * 100_000_000) >> era if era < 64 else 0
    for h in cands:
        try:
            got = get_block_subsidy(h)
        except Exception as e:
            return {'failing_input_found': True, 'input': {'height': h}, 'observed': '%s: %s' % (type(e).__name__, e),
                    'expected': documented(h), 'model': model}
        if got != documented(h):
            return {'failing_input_found': True, 'input': {'height': h}, 'observed': got, 'expected': documented(h),
                    'model': model, 'call': 'skepticoin.consensus.get_block_subsidy(%d)' % h}
    return {'failing_input_found': False, 'tried': len(cands), 'model': model}
