"""Replays of recorded violations on the tree that is in /repo now.

`./check <ID> --replay replays/<ID>/<file>.json`
  * a file written for a bounded companion (name `<ID>:bounded:...` / `<ID>:recorded:...`): the companion is run again
    (same tier and seed as recorded, default quick/0) and its verdict printed - exit 1 if the real code still fails;
  * a file written for a proof obligation: the obligation's function is verified again and, if the obligation still is not
    discharged, the property's replay harness (replay/<id>.py, where one exists) is asked for a native failing input -
    exit 1 if the obligation still fails, with or without a native input (the file says which)."""
import importlib
import json
import os
import sys


def run_file(prop, path, home):
    p = path if os.path.isabs(path) else os.path.join(home, path)
    rec = json.load(open(p))
    name = rec.get('name') or rec.get('obligation') or ''
    print("replaying %s" % name)
    if ':bounded:' in name or ':recorded:' in name:
        import contracts
        plan = contracts.plan_for(prop)
        still = []
        for modname in plan.get('native', []):
            mod = importlib.import_module(modname)
            res = mod.run(tier=rec.get('tier', 'quick'), seed=int(rec.get('seed', 0)))
            for vio in res.get('violations', []):
                still.append(vio)
            for kf in res.get('known_findings', []):
                print("KNOWN-FINDING: property=%s %s" % (prop, kf))
        if still:
            print(json.dumps(still, indent=1)[:3000])
            print("the real code still fails: %s" % still[0].get('what', [''])[0])
            return 1
        print("the bounded companion no longer finds a failing input on this tree")
        return 0
    # a proof obligation
    import contracts
    qual = name.split(':')[0]
    v = contracts.make_verifier()
    try:
        if qual.startswith('C') and ':lemma' in name:
            lem = [f for (n, props, f) in v.cset.lemmas if prop in props]
            for f in lem:
                v.current = 'lemma'
                v.func_axioms = []
                v._ax_seen = set()
                f(v)
        else:
            v.verify_function(qual)
    except Exception as e:
        print("the function can no longer be executed by the checker: %s: %s" % (type(e).__name__, e))
        return 3
    v.discharge_all()
    bad = [ob for ob in v.obligations if ob.name == name and ob.status != 'discharged']
    if not bad:
        print("obligation %s is discharged on this tree" % name)
        return 0
    paths = [{'status': ob.status, 'where': ob.where, 'model': contracts.describe_model(v, ob) if ob.model is not None else None}
             for ob in bad]
    rep = contracts.replay_obligation(prop, name, paths)
    print(json.dumps({'obligation': name, 'failing_paths': paths, 'replayed': rep}, indent=1, default=str)[:4000])
    print("obligation %s still fails%s" % (name, "" if rep and rep.get('failing_input_found') else " (no-failing-input-found)"))
    return 1
