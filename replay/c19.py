"""C19 replay: the counterexample (failure count, last attempt, clock) on the real is_time_to_connect, against the
documented schedule min(10 s * 2^k, 30 min) and the failure limit; then the thresholds of every k."""
import os, sys, tempfile
from ._model import ints


def replay(name, bad, tier='quick', seed=0):
    if 'is_time_to_connect' not in name:
        return {'failing_input_found': False, 'note': 'structural obligation: the report names the source location'}
    sys.path.insert(0, os.environ.get('VERIF_REPO', '/repo'))
    import skepticoin.networking.local_peer  # noqa
    from skepticoin.networking.remote_peer import DisconnectedRemotePeer, OUTGOING
    vals, model = ints(bad)
    cands = []
    k = vals.get('self.ban_score', vals.get('ban_score'))
    now = vals.get('current_time')
    last = vals.get('self.last_connection_attempt', vals.get('last_connection_attempt'))
    if k is not None and now is not None:
        cands.append((k, last, now))
    for kk in list(range(0, 12)) + [2879, 2880, 2881]:
        need = min(10 * 2 ** kk, 1800)
        for dt in (need - 1, need, need + 1):
            cands.append((kk, 1000, 1000 + dt))
        cands.append((kk, None, 5))
    for kk, ll, nn in cands:
        want = kk <= 2880 and (ll is None or nn - ll >= min(10 * 2 ** min(kk, 20), 1800))
        got = DisconnectedRemotePeer("h", 1, OUTGOING, ll, kk).is_time_to_connect(nn)
        if got != want:
            return {'failing_input_found': True, 'input': {'ban_score': kk, 'last_connection_attempt': ll, 'current_time': nn},
                    'observed': got, 'expected': want, 'model': model,
                    'call': 'DisconnectedRemotePeer("h", 1, OUTGOING, %r, %d).is_time_to_connect(%d)' % (ll, kk, nn)}
    return {'failing_input_found': False, 'tried': len(cands), 'model': model}
