"""helpers: values of the symbolic inputs from the solver's counterexample (as described by contracts.describe_model)"""
import re


def ints(bad):
    """{parameter name: int} from the first failing path that carries a model"""
    for path in bad:
        m = path.get('model') or {}
        out = {}
        for k, v in m.items():
            name = k.split('!')[0]
            if re.fullmatch(r'-?\d+', str(v).strip()):
                out.setdefault(name, int(v))
            elif re.fullmatch(r'\(- (\d+)\)', str(v).strip()):
                out.setdefault(name, -int(re.fullmatch(r'\(- (\d+)\)', str(v).strip()).group(1)))
        if out:
            return out, m
    return {}, {}
