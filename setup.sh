#!/bin/sh
# Builds /verif/.venv offline: python 3.12 (from /venv) + z3-solver, cvc5, jsonschema, crosshair-tool, deal, icontract,
# hypothesis from the offline wheelhouse, plus a .pth that exposes the repository's own third-party deps
# (immutables, ecdsa, scrypt) installed in /venv.  Idempotent.
set -e
cd "$(dirname "$0")"
if [ -x .venv/bin/python ] && .venv/bin/python -c "import z3, immutables, ecdsa, scrypt, jsonschema" 2>/dev/null; then
  exit 0
fi
rm -rf .venv
/venv/bin/python -m venv .venv
PIP_NO_INDEX=1 .venv/bin/pip install -q --no-index --find-links /opt/veriftools/wheels \
    z3-solver cvc5 jsonschema crosshair-tool deal icontract hypothesis >/dev/null
echo "import site; site.addsitedir('/venv/lib/python3.12/site-packages')" \
    > .venv/lib/python3.12/site-packages/repo_deps.pth
.venv/bin/python -c "import z3, immutables, ecdsa, scrypt, jsonschema; print('venv ok, z3', z3.get_version_string())"
