"""Value classes of skepticoin as SMT datatypes, generated from the real classes' __init__ on every run.

Fields are the `self.x = ...` assignments of __init__; a field's type is the annotation of the parameter assigned to it
(or the type of the constant).  Class hierarchies (Signature, PublicKey, Message) become one datatype with a constructor
per concrete subclass.  OVERRIDES lists the few fields whose type cannot be read off that way."""
import ast
import inspect
import textwrap
import typing

from pyvc.types import (T, INT, BOOL, BYTES, STR, NONE, ANY, OPT, LIST, SET, MAP, TUPLE, CLS, Outside, Registry,
                        from_annotation)

PKBALANCE = TUPLE(INT, LIST(CLS('OutputReference')))
UTXO = MAP(CLS('OutputReference'), CLS('Output'))
PKB = MAP(CLS('PublicKey'), PKBALANCE)

OVERRIDES = {
    ('CoinState', 'public_key_balances_by_hash'): CLS('PublicKeyBalances'),
    ('PublicKeyBalances', 'cache'): None,       # memo: not part of the value (observational purity is a contract)
    ('Block', 'cached_hash'): OPT(BYTES),
    ('Transaction', 'cached_hash'): OPT(BYTES),
}


def fields_from_init(pyclass, reg):
    init = pyclass.__dict__.get('__init__')
    if init is None:
        for k in pyclass.__mro__[1:]:
            if '__init__' in k.__dict__ and k is not object:
                init = k.__dict__['__init__']
                break
    if init is None:
        return [], {}
    node = ast.parse(textwrap.dedent(inspect.getsource(init))).body[0]
    globs = init.__globals__
    ptypes = {}
    for a in node.args.args[1:]:
        if a.annotation is not None:
            try:
                ptypes[a.arg] = from_annotation(ast.unparse(a.annotation), reg, globs)
            except Outside:
                ptypes[a.arg] = None
    fields = []
    param_field = {}
    seen = set()
    for st in ast.walk(node):
        tgt = val = None
        if isinstance(st, ast.Assign) and len(st.targets) == 1:
            tgt, val = st.targets[0], st.value
        elif isinstance(st, ast.AnnAssign):
            tgt, val = st.target, st.value
        if not (isinstance(tgt, ast.Attribute) and isinstance(tgt.value, ast.Name) and tgt.value.id == 'self'):
            continue
        name = tgt.attr
        if name in seen:
            continue
        key = (pyclass.__name__, name)
        if key in OVERRIDES:
            ty = OVERRIDES[key]
            if ty is None:
                continue
        elif isinstance(val, ast.Name) and val.id in ptypes and ptypes[val.id] is not None:
            ty = ptypes[val.id]
        elif isinstance(val, ast.Constant) and isinstance(val.value, bool):
            ty = BOOL
        elif isinstance(val, ast.Constant) and isinstance(val.value, int):
            ty = INT
        elif isinstance(val, ast.Constant) and isinstance(val.value, bytes):
            ty = BYTES
        elif val is None and isinstance(st, ast.AnnAssign):
            ty = from_annotation(ast.unparse(st.annotation), reg, globs)
        else:
            raise Outside("cannot type field %s.%s (add to OVERRIDES)" % key)
        seen.add(name)
        fields.append((name, ty))
        if isinstance(val, ast.Name):
            param_field[val.id] = name
    return fields, param_field


def build_registry(with_messages=False):
    import skepticoin.datatypes as d
    import skepticoin.signing as sg
    import skepticoin.coinstate as cs
    import skepticoin.balances as bal
    reg = Registry()

    def decl(pyclass, root=None):
        fields, param_field = fields_from_init(pyclass, reg)
        ci = reg.declare(pyclass, fields, root)
        ci.param_field = param_field
        return ci

    decl(d.OutputReference)
    decl(sg.SignableEquivalent, sg.Signature)
    decl(sg.CoinbaseData, sg.Signature)
    decl(sg.SECP256k1Signature, sg.Signature)
    decl(sg.SECP256k1PublicKey, sg.PublicKey)
    decl(d.Input)
    decl(d.Output)
    decl(d.Transaction)
    decl(d.PowEvidence)
    decl(d.BlockSummary)
    decl(d.BlockHeader)
    decl(d.Block)
    decl(bal.PublicKeyBalances)
    decl(cs.CoinState)
    # protocol messages, as far as dispatch is concerned: only their class matters (no fields are modelled)
    import skepticoin.networking.local_peer  # noqa: the repository's modules import each other in a cycle
    import skepticoin.networking.messages as msg
    import skepticoin.networking.remote_peer as rp
    # a waiting-for-reconnection record: plain data (host, port, direction, time of the last attempt, failure count)
    ci = reg.declare(rp.DisconnectedRemotePeer, [('host', STR), ('port', INT), ('direction', STR),
                                                 ('last_connection_attempt', OPT(INT)), ('ban_score', INT)])
    ci.param_field = {'host': 'host', 'port': 'port', 'direction': 'direction',
                      'last_connection_attempt': 'last_connection_attempt', 'ban_score': 'ban_score'}
    # an announced peer and the two attributes of its address the handler reads (ipaddress objects, as plain records)
    import ipaddress
    c4 = reg.declare(ipaddress.IPv4Address, [('exploded', STR)])
    c4.param_field = {}
    c4.no_invariant = True
    c6 = reg.declare(ipaddress.IPv6Address, [('ipv4_mapped', OPT(CLS('IPv4Address')))])
    c6.param_field = {}
    c6.no_invariant = True
    cp = reg.declare(msg.Peer, [('last_seen_at', INT), ('ip_address', CLS('IPv6Address')), ('port', INT)])
    cp.param_field = {'last_seen_at': 'last_seen_at', 'ip_address': 'ip_address', 'port': 'port'}
    for k in (msg.HelloMessage, msg.GetBlocksMessage, msg.InventoryMessage, msg.GetDataMessage, msg.DataMessage,
              msg.GetPeersMessage, msg.PeersMessage):
        ci = reg.declare(k, [], msg.Message)
        ci.param_field = {}
    return reg


# classes whose __eq__ compares every field (python == coincides with term equality): checked by obligation in C07
STRUCTURAL = {'OutputReference', 'SECP256k1PublicKey', 'PublicKey', 'SECP256k1Signature', 'SignableEquivalent',
              'PowEvidence', 'Output'}
