"""Contracts for the codecs (C07): serialization.py helpers and every Serializable class of datatypes.py / signing.py.

enc(v) is the summary of v.serialize() (what stream_serialize appends).  For each class T:
  SER(T):  stream_serialize appends exactly enc(self)               (unfolds enc(T) into its components)
  RT2(T):  stream_deserialize returns r having consumed bytes c      ==>  enc(r) == c        (one encoding per value)
  RT1(T):  on a stream holding enc(v) for a valid v at the cursor    ==>  returns a value equal to v, cursor behind it
"""
from pyvc import *
from pyvc.spec import ContractSet
import z3

CD = ContractSet()
STREAM = ('stream',)


def append_enc(eng, st, vals):
    """effect of X.stream_serialize(f): f's contents grow by enc(X), the cursor stays at the end"""
    from .ghosts import enc_uf
    f = vals['f']
    h = st.heap[f.loc]
    e = enc_uf(eng, vals['self'])
    h.fields['data'] = V(eng.mk_concat(h.fields['data'].t, e), BYTES)
    h.fields['pos'] = V(z3.simplify(h.fields['pos'].t + z3.Length(e)), INT)
    st.writes += 1


@CD.contract("skepticoin.serialization.safe_read", props=["C07", "C06", "C20"])
def _(c):
    c.params(f=STREAM)
    c.let(d0="f.data", p0="f.pos")
    c.requires("n >= 0")
    c.ensures("len(result) == n", "result == d0[p0:p0 + n]", "f.pos == p0 + n", "p0 + n <= len(d0)")
    c.always("f.data == d0")
    c.raises_only_if("p0 + n > len(d0)")
    c.modifies("f")


def consumed(f="f"):
    return "d0[p0:%s.pos]" % f


# ---- fixed-width leaf classes ------------------------------------------------------------------------------------------

def codec(qual_cls, props=("C07", "C06"), rt1_requires=(), tag=None, deser_cls=None, deser_ensures=()):
    """SER / RT2 contracts of one class (RT1 is a lemma per class, see lemmas.py)"""
    from pyvc import Verifier
    pyclass = Verifier.resolve(qual_cls)

    @CD.contract(qual_cls + ".stream_serialize", props=list(props))
    def _(c):
        c.params(f=STREAM)
        c.let(d0="f.data")
        c.requires("f.pos == len(f.data)")
        # appends exactly enc(self): the bytes this very method writes to an empty stream (definition of enc), wherever
        # the stream stands; callers see the summary term enc(self)
        c.ensures("f.data == d0 + G.enc_of(self)", "f.data == d0 + self.serialize()", "f.pos == len(f.data)")
        c.modifies("f")
        c.effect(append_enc)

    @CD.contract(qual_cls + ".stream_deserialize", props=list(props))
    def _(c):
        c.params(f=STREAM, cls=('const', pyclass))
        c.let(d0="f.data", p0="f.pos")
        # one encoding per value: what was consumed is the encoding of what was returned
        consumed = "d0[p0:f.pos]" if tag is None else "%r + d0[p0:f.pos]" % tag    # the type byte was read by the dispatcher
        c.ensures("f.data == d0", "p0 <= f.pos <= len(d0)", "G.enc_of(result) == " + consumed,
                  "result.serialize() == " + consumed, "G.id_ok(result)", *deser_ensures)
        c.always("f.data == d0")
        c.modifies("f")


for q in ("skepticoin.datatypes.OutputReference", "skepticoin.datatypes.PowEvidence"):
    codec(q)
codec("skepticoin.signing.SECP256k1PublicKey", tag=b'\x02')
codec("skepticoin.signing.SECP256k1Signature", tag=b'\x02')
codec("skepticoin.signing.SignableEquivalent", tag=b'\x00')
codec("skepticoin.signing.CoinbaseData", tag=b'\x01')


# dispatchers: read the type byte, hand over to the subclass; the whole consumed range is the value's encoding
for q in ("skepticoin.signing.PublicKey", "skepticoin.signing.Signature"):
    @CD.contract(q + ".stream_deserialize", props=["C07", "C06"])
    def _(c, q=q):
        from pyvc import Verifier
        c.params(f=STREAM, cls=('const', Verifier.resolve(q)))
        c.let(d0="f.data", p0="f.pos")
        c.ensures("f.data == d0", "p0 <= f.pos <= len(d0)", "result.serialize() == d0[p0:f.pos]")
        c.always("f.data == d0")
        c.modifies("f")

codec("skepticoin.datatypes.Input")
codec("skepticoin.datatypes.Output")


# ---- variable-length quantities ----------------------------------------------------------------------------------------

def append_vlq(eng, st, vals):
    from .ghosts import GH
    f = vals['f']
    h = st.heap[f.loc]
    e = GH.ghosts['vlq'](eng, st, vals['i']).t
    h.fields['data'] = V(eng.mk_concat(h.fields['data'].t, e), BYTES)
    h.fields['pos'] = V(z3.simplify(h.fields['pos'].t + z3.Length(e)), INT)
    st.writes += 1


@CD.contract("skepticoin.serialization.stream_serialize_vlq", props=["C07", "C06"])
def _(c):
    c.params(f=STREAM)
    c.requires("f.pos == len(f.data)")
    c.ensures("f.data == old(f.data) + G.vlq(i)", "f.pos == len(f.data)")
    c.raises_only_if("i < 0")
    c.modifies("f")
    c.effect(append_vlq)
    c.trust("vlq(i) names the bytes this function writes; its arithmetic (digits base 128, most significant first, one "
            "extra leading byte when bit_length % 7 == 0) and the round trip with the decoder are checked by the bounded "
            "part of C07 (exhaustive small ranges + boundaries), not proved")


@CD.contract("skepticoin.serialization.stream_deserialize_vlq", props=["C07", "C06"])
def _(c):
    c.params(f=STREAM)
    c.let(d0="f.data", p0="f.pos")
    c.returns(INT)
    c.ensures("result >= 0", "f.data == d0", "p0 < f.pos <= len(d0)", "G.vlq(result) == d0[p0:f.pos]",
              # where the bytes at the cursor literally are an encoder output vlq(i), it returns i and consumes exactly that
              "G.vlq_readback(d0, p0, result, f.pos)")
    c.always("f.data == d0")
    c.raises_only_if("not G.vlq_at(d0, p0)")        # ... and does not refuse it
    c.modifies("f")
    c.trust("accepts exactly the encoder's image (canonical, fixed by 0a4f2e3) and reads back what the encoder wrote: checked by "
            "the bounded part of C07 (ranges, boundaries, all short strings), not proved")


# ---- lists (generic in the element class: verified where they are inlined, once per element class) ------------------------

@CD.contract("skepticoin.serialization.stream_serialize_list", props=[])    # inlined at every use
def _(c):
    c.verify_body = False
    c.let(d0_list="f.data")
    c.loop(0).invariant("f.data == d0_list + G.vlq(len(lst)) + G.enc_list(lst, i)", "f.pos == len(f.data)")


@CD.contract("skepticoin.serialization.stream_deserialize_list", props=[])  # inlined at every use
def _(c):
    c.verify_body = False
    c.local(result=lambda frame: LIST(CLS(frame['clz'].__name__)))
    c.let(d0_list="f.data", p0_list="f.pos")
    c.loop(0).invariant("len(result) == i", "f.data == d0_list", "p0_list <= f.pos <= len(f.data)", "length >= 0",
                        "G.vlq(length) + G.enc_list(result, i) == f.data[p0_list:f.pos]",
                        "all(G.id_ok(result[k]) for k in range(i))")


# ---- identity: the id cached at decode time is the double SHA-256 of the canonical encoding --------------------------------

TX_ID_OK = "%s.cached_hash is None or %s.cached_hash == sha256d(%s.serialize())"
BLOCK_ID_OK = "%s.cached_hash is None or %s.cached_hash == sha256d(%s.header.serialize())"

codec("skepticoin.datatypes.Transaction",
      deser_ensures=["result.cached_hash == sha256d(d0[p0:f.pos])", TX_ID_OK % (("result",) * 3)])
codec("skepticoin.datatypes.BlockSummary")
codec("skepticoin.datatypes.BlockHeader")
codec("skepticoin.datatypes.Block",
      deser_ensures=["result.cached_hash == sha256d(result.header.serialize())", BLOCK_ID_OK % (("result",) * 3),
                     "all(G.id_ok(result.transactions[k]) for k in range(len(result.transactions)))"])


# the id functions, verified here against their definition (the other properties use them as the functions tx_id / block_id
# of the object: contracts/datatypes.py)
@CD.contract("skepticoin.datatypes.Transaction.hash#C07", props=["C07"])
def _(c):
    c.summary("tx_id")
    c.requires(TX_ID_OK % (("self",) * 3))
    c.ensures("result == sha256d(self.serialize())", "len(result) == 32")


@CD.contract("skepticoin.datatypes.Block.hash#C07", props=["C07"])
def _(c):
    c.summary("block_id")
    c.requires(BLOCK_ID_OK % (("self",) * 3))
    c.ensures("result == sha256d(self.header.serialize())", "len(result) == 32")


for q, uf in (("skepticoin.datatypes.BlockHeader.hash", "header_id"), ("skepticoin.datatypes.BlockSummary.hash", "summary_id")):
    @CD.contract(q + "#C07", props=["C07"])
    def _(c, uf=uf):
        c.summary(uf)
        c.ensures("result == sha256d(self.serialize())", "len(result) == 32")


# the list encoding the proof-of-work evidence hashes (C06): the bytes of serialize_list are the list codec's bytes
@CD.contract("skepticoin.serialization.serialize_list#C06", props=["C06"])
def _(c):
    c.params(lst=LIST(CLS("Transaction")))
    c.summary("enc_list")
    c.returns(BYTES)
    c.ensures("result == G.vlq(len(lst)) + G.enc_list(lst, len(lst))")
