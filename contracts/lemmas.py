"""Spec-level lemmas: consequences of the contracts and of the ghost definitions, discharged by the same solvers.
Each lemma creates named obligations on a fresh state."""
import re
import z3
from pyvc import V, INT, State, LIST, BYTES
from pyvc.spec import ContractSet
from .ghosts import GH, era_table, COIN, DOC_INITIAL_SUBSIDY_COIN, DOC_HALVING_INTERVAL, DOC_MAX_SUPPLY

LM = ContractSet()


def CLS_(name):
    from pyvc import CLS
    return CLS(name)


def _st():
    return State()


@LM.lemma("C16.schedule", props=["C16"])
def c16_schedule(v):
    """monotone, exhausted, closed-form total == documented maximum; code constants == documented constants"""
    import os
    import skepticoin.params as params
    st = _st()
    era = lambda k: GH.ghosts['era_subsidy'](v, st, V(k, INT)).t
    I = DOC_HALVING_INTERVAL
    h1, h2 = z3.Ints('h1 h2')
    tab = era_table()
    # never increases with height (all heights)
    v.oblige(st.fork().assume(z3.And(0 <= h1, h1 <= h2)), era(h1 / I) >= era(h2 / I), "C16:lemma:non-increasing")
    # zero from the point where halving exhausts it
    v.oblige(st.fork().assume(h1 >= len(tab) * I), era(h1 / I) == 0, "C16:lemma:zero-after-exhaustion")
    v.oblige(st.fork().assume(z3.And(0 <= h1, h1 < len(tab) * I)), era(h1 / I) > 0, "C16:lemma:positive-before-exhaustion")
    # era k is the initial subsidy halved k times by integer division == division by 2^k
    v.oblige(st, z3.BoolVal(all(tab[k] == (DOC_INITIAL_SUBSIDY_COIN * COIN) // (2 ** k) for k in range(len(tab)))
                            and (DOC_INITIAL_SUBSIDY_COIN * COIN) // (2 ** len(tab)) == 0),
             "C16:lemma:iterated-halving-is-division-by-power")
    v.oblige(st, era(z3.IntVal(0)) == 10 * COIN, "C16:lemma:initial-subsidy-10-coin")
    # the subsidy depends on the era only, so the sum over all heights is interval * sum of the era table
    total = I * sum(tab)
    v.oblige(st, z3.BoolVal(total == DOC_MAX_SUPPLY), "C16:lemma:total-equals-2099999986350000")
    # the real module's constants are the documented ones
    v.oblige(st, z3.BoolVal(params.MAX_SASHIMI == DOC_MAX_SUPPLY), "C16:lemma:params.MAX_SASHIMI")
    v.oblige(st, z3.BoolVal(params.SUBSIDY_HALVING_INTERVAL == I), "C16:lemma:params.SUBSIDY_HALVING_INTERVAL")
    v.oblige(st, z3.BoolVal(params.INITIAL_SUBSIDY == DOC_INITIAL_SUBSIDY_COIN * COIN), "C16:lemma:params.INITIAL_SUBSIDY")
    v.oblige(st, z3.BoolVal(params.SASHIMI_PER_COIN == COIN), "C16:lemma:params.SASHIMI_PER_COIN")
    # docs/params.md states the same maximum, interval and subsidy
    doc = open(os.path.join(os.path.dirname(os.path.dirname(params.__file__)), 'docs', 'params.md')).read()
    m = re.search(r'([0-9,]+\.[0-9]+) maximum total amount', doc)
    doc_max = None
    if m:
        whole, frac = m.group(1).replace(',', '').split('.')
        doc_max = int(whole) * COIN + int(frac.ljust(8, '0')[:8])
    v.oblige(st, z3.BoolVal(doc_max == DOC_MAX_SUPPLY), "C16:lemma:docs-maximum-supply")
    m2 = re.search(r'([0-9,]+) block halving interval', doc)
    v.oblige(st, z3.BoolVal(bool(m2) and int(m2.group(1).replace(',', '')) == I), "C16:lemma:docs-halving-interval")
    m3 = re.search(r'([0-9]+) coin subsidy', doc)
    v.oblige(st, z3.BoolVal(bool(m3) and int(m3.group(1)) == DOC_INITIAL_SUBSIDY_COIN), "C16:lemma:docs-initial-subsidy")


# ---------------------------------------------------------------------------------------------------- C01

def _lemma_state(v, modname='skepticoin.consensus'):
    import importlib
    from pyvc.engine import Frame
    st = State()
    st.stack.append(Frame({}, None, importlib.import_module(modname).__dict__, 'lemma'))
    return st


CQ = "skepticoin.consensus."


def accepted_block(v):
    """state in which a symbolic block has been accepted by full validation (both validators returned normally, height
    above the checkpoint horizon) on a symbolic chain state, with the verified contracts of the two block validators
    instantiated on it"""
    from pyvc import CLS
    st = _lemma_state(v)
    block = v.fresh('block', CLS('Block'))
    cs = v.fresh('coinstate', CLS('CoinState'))
    now = v.fresh('now', INT)
    st.frame.vars.update(block=block, coinstate=cs, now=now)
    G = GH.ghosts
    st.assume(G['ok_itself'](v, st, block, now).t)
    st.assume(G['ok_in_state'](v, st, block, cs).t)
    st.assume(v.spec_bool("block.header.summary.height > 163000", st))
    assert v.use_contract(st, CQ + "validate_block_by_itself", block=block, current_timestamp=now)
    assert v.use_contract(st, CQ + "validate_block_in_coinstate", block=block, coinstate=cs)
    st.frame.vars['prev'] = v.spec_value("block.header.summary.previous_block_hash", st)
    st.frame.vars['U'] = v.spec_value("coinstate.unspent_transaction_outs_by_hash[prev]", st)
    st.frame.vars['txs'] = v.spec_value("block.transactions", st)
    return st, block, cs, now


def pick_input(v, st, jn='j0', kn='k0', tn='t0'):
    """an arbitrary input k0 of an arbitrary non-reward transaction t0 = txs[1 + j0] of the block (skolem constants)"""
    j0 = v.fresh(jn, INT)
    k0 = v.fresh(kn, INT)
    st.frame.vars[jn] = j0
    st.frame.vars[kn] = k0
    st.assume(v.spec_bool("0 <= %s < len(txs) - 1" % jn, st))
    st.frame.vars[tn] = v.spec_value("txs[1 + %s]" % jn, st)
    st.assume(v.spec_bool("0 <= %s < len(%s.inputs)" % (kn, tn), st))
    return st.frame.vars[tn]


@LM.lemma("C01.accepted-block", props=["C01"])
def c01_accepted(v):
    st, block, cs, now = accepted_block(v)
    assert v.use_contract(st, CQ + "validate_coinbase_transaction_in_coinstate",
                          transaction=v.spec_value("txs[0]", st), block=block, coinstate=cs)
    v.oblige(st, v.spec_bool("prev in coinstate.block_by_hash and prev in coinstate.unspent_transaction_outs_by_hash", st),
             "C01:lemma:parent-stored", "the parent is a stored block whose ledger state is the one consulted")
    # an arbitrary spend in the block
    s1 = st.fork()
    t0 = pick_input(v, s1)
    prev = s1.frame.vars['prev']
    assert v.use_contract(s1, CQ + "validate_non_coinbase_transaction_in_coinstate", transaction=t0, at_hash=prev, coinstate=cs)
    assert v.use_contract(s1, CQ + "validate_non_coinbase_transaction_by_itself", transaction=t0)
    goals = {
        "spends-exist-in-parent-state": "t0.inputs[k0].output_reference in U",
        "spends-verify-under-spent-outputs-key": "G.spend_verifies(t0.inputs[k0], U[t0.inputs[k0].output_reference], t0)",
        "real-signature-objects": "isinstance(t0.inputs[k0].signature, SECP256k1Signature)",
        "not-the-null-reference": "not (t0.inputs[k0].output_reference.hash == ZERO32 and t0.inputs[k0].output_reference.index == 0)",
    }
    for name, text in goals.items():
        v.oblige(s1, v.spec_bool(text, s1), "C01:lemma:" + name, text + "   [for arbitrary non-reward t0 = txs[1+j0], input k0]")
    # no output is spent twice inside the block: two different input positions never carry the same reference
    s2 = st.fork()
    ta = pick_input(v, s2, 'j0', 'k0', 't0')
    tb = pick_input(v, s2, 'j1', 'k1', 't1')
    s2.assume(v.spec_bool("not (j0 == j1 and k0 == k1)", s2))
    assert v.use_contract(s2, CQ + "validate_no_duplicate_output_references_in_transactions",
                          transactions=v.spec_value("txs[1:]", s2))
    v.oblige(s2, v.spec_bool("t0.inputs[k0].output_reference != t1.inputs[k1].output_reference", s2),
             "C01:lemma:no-output-spent-twice-in-block", "two different input positions of the block never share a reference")
    # no spent output is one created in that same block: every spent reference is in the parent's unspent set, and
    # (A-FRESH) no output in the parent's set carries the id of a transaction of this block
    s3 = s1.fork()
    m0 = v.fresh('m0', INT)
    s3.frame.vars['m0'] = m0
    s3.assume(v.spec_bool("0 <= m0 < len(txs)", s3))
    s3.assume(v.spec_bool("implies(t0.inputs[k0].output_reference in U, t0.inputs[k0].output_reference.hash != txs[m0].hash())", s3))
    v.assumptions_used.add('A-FRESH')
    v.oblige(s3, v.spec_bool("t0.inputs[k0].output_reference.hash != txs[m0].hash()", s3),
             "C01:lemma:no-spend-of-output-created-in-same-block", "under A-FRESH, because the reference is in the parent's set")


# ---------------------------------------------------------------------------------------------------- C04

# Representation invariant of a chain state built by parent-before-child arrivals, in pointwise form: every clause is
# stated for one stored id k (and one second variable where needed).  Ghost state: arr (arrival index of every stored
# block) and child (for a stored block that is not a tip: one stored child).  Domains: 'block' = k in cs.block_by_hash,
# 'tip' = k in cs.heads; second variable 'c' ranges over stored ids, 'm' over all integers.
FORK_MACROS = {
    'HT': "lambda k: cs.block_by_hash[k].header.summary.height",
    'PREV': "lambda k: cs.block_by_hash[k].header.summary.previous_block_hash",
}
INV_FORK = {
    # ids are the blocks' own ids; every stored block has its index
    "ids": ('block', None, "cs.block_by_hash[k].hash() == k and k != ZERO32"),
    "indexed": ('block', None, "k in cs.block_by_height_by_hash"),
    # the tree: a stored block is a root at height 0, or its parent is stored one level lower
    "tree": ('block', None, "HT(k) >= 0 and ((PREV(k) == ZERO32 and HT(k) == 0) or (PREV(k) != ZERO32 and PREV(k) in cs.block_by_hash and HT(k) == HT(PREV(k)) + 1))"),
    # head: stored; nothing stored is higher; equally high blocks arrived no earlier (first seen wins)
    "head-stored": ('block', None, "cs.current_chain_hash is not None and cs.current_chain_hash in cs.block_by_hash"),
    "head-best": ('block', None, "HT(k) < HT(cs.current_chain_hash) or (HT(k) == HT(cs.current_chain_hash)"
                                 " and (k == cs.current_chain_hash or arr[cs.current_chain_hash] < arr[k]))"),
    # tips: exactly the stored blocks without a stored child
    "tips-stored": ('tip', None, "k in cs.block_by_hash and same(cs.heads[k], cs.block_by_hash[k])"),
    "tips-childless": ('tip', 'c', "PREV(c) != k"),
    "non-tips-have-child": ('block', None, "k in cs.heads or (child[k] in cs.block_by_hash and PREV(child[k]) == k)"),
    # by-height index at k: exactly heights 0..height(k); k itself on top; below that, the parent's index
    "index-domain": ('block', 'm', "(m in cs.block_by_height_by_hash[k]) == (0 <= m <= HT(k))"),
    "index-top": ('block', None, "same(cs.block_by_height_by_hash[k][HT(k)], cs.block_by_hash[k])"),
    "index-ancestors": ('block', 'm', "implies(0 <= m < HT(k), PREV(k) in cs.block_by_height_by_hash and"
                                      " same(cs.block_by_height_by_hash[k][m], cs.block_by_height_by_hash[PREV(k)][m]))"),
    # arrival indices of different stored blocks differ
    "arrivals-distinct": ('block', 'c', "k == c or arr[k] != arr[c]"),
}


def _fork_env(v, st, cs, arr, child):
    st.frame.vars.update(cs=cs, arr=arr, child=child)
    for name, text in FORK_MACROS.items():
        st.frame.vars[name] = v.spec_value(text, st)


def _fork_clause(v, st, name, k, second=None):
    """the clause `name` of INV_FORK at key k (and second variable), including its domain guard, as a z3 formula"""
    dom, sec, text = INV_FORK[name]
    env = {'k': k}
    guard = "k in cs.block_by_hash" if dom == 'block' else "k in cs.heads"
    if sec == 'c':
        env['c'] = second
        guard += " and c in cs.block_by_hash"
    elif sec == 'm':
        env['m'] = second
    return z3.Implies(v.spec_bool(guard, st, env), v.spec_bool(text, st, env))


@LM.lemma("C04.fork-choice", props=["C04"])
def c04_fork_choice(v):
    """INV_FORK is established by the empty state and preserved by add_block_no_validation for every block that picks an
    already stored block as parent (or is the first block).  The induction over the arrival sequence is the usual
    soundness argument for a representation invariant; base and step are what is checked here.  The step is proved
    pointwise: for an arbitrary key k0 (c0 / m0) of the NEW state, from the old invariant instantiated at the keys that
    matter (k0, c0, the parent, the old head, the ghost child witnesses) - a quantifier-free problem."""
    from pyvc import CLS, BYTES, ARR
    st = _lemma_state(v, 'skepticoin.coinstate')
    cs = v.fresh('cs', CLS('CoinState'))
    block = v.fresh('block', CLS('Block'))
    arr = v.fresh('arr', ARR(BYTES, INT))
    child = v.fresh('child', ARR(BYTES, BYTES))
    k0 = v.fresh('k0', BYTES)
    c0 = v.fresh('c0', BYTES)
    m0 = v.fresh('m0', INT)
    n = v.fresh('n', INT)
    st.frame.vars.update(block=block, k0=k0, c0=c0, m0=m0, n=n)
    _fork_env(v, st, cs, arr, child)
    st.frame.vars['h'] = v.spec_value("block.hash()", st)
    st.frame.vars['prev'] = v.spec_value("block.header.summary.previous_block_hash", st)
    h, prev = st.frame.vars['h'], st.frame.vars['prev']
    cur = v.spec_value("cs.current_chain_hash", st)
    from pyvc.types import opt_sort, BYTES_SORT
    cur_b = V(opt_sort(BYTES_SORT).val(cur.t), BYTES)
    # the arriving block: new, and its parent arrived earlier (or it is the first block: empty state)
    st.assume(v.spec_bool("(cs.current_chain_hash is None) == (not any(True for k in cs.block_by_hash))", st))
    st.assume(v.spec_bool("implies(cs.current_chain_hash is None, not any(True for k in cs.heads))", st))
    for text in [
        "h not in cs.block_by_hash", "h not in cs.heads", "h != ZERO32",
        "(prev == ZERO32 and cs.current_chain_hash is None and block.header.summary.height == 0)"
        " or (prev != ZERO32 and prev in cs.block_by_hash and block.header.summary.height == HT(prev) + 1)",
        "G.applies(cs, block)",
    ]:
        st.assume(v.spec_bool(text, st))
    assert v.use_contract(st, "skepticoin.coinstate.CoinState.add_block_no_validation", self=cs, block=block)
    cs2 = v.spec_value("cs.add_block_no_validation(block)", st)
    # no stored block names the new one as parent (children arrive after parents), at the keys used below
    keys = [k0, c0, prev, cur_b, V(z3.Select(child.t, k0.t), BYTES), V(z3.Select(child.t, prev.t), BYTES)]
    for kk in keys:
        st.assume(v.spec_bool("implies(cs.current_chain_hash is None, not (kk in cs.block_by_hash) and not (kk in cs.heads))", st, {'kk': kk}))
        st.assume(v.spec_bool("implies(kk in cs.block_by_hash, PREV(kk) != h)", st, {'kk': kk}))
        st.assume(v.spec_bool("implies(kk in cs.block_by_hash, arr[kk] < n)", st, {'kk': kk}))
    # the old invariant, instantiated at those keys
    for name, (dom, sec, _t) in INV_FORK.items():
        for kk in keys:
            if sec == 'c':
                for cc in keys:
                    st.assume(_fork_clause(v, st, name, kk, cc))
            elif sec == 'm':
                for mm in (m0, V(m0.t - 1, INT)):
                    st.assume(_fork_clause(v, st, name, kk, mm))
            else:
                st.assume(_fork_clause(v, st, name, kk))
    # ghost updates: the new block arrives after everything stored; it becomes the child witness of its parent
    arr2 = V(z3.Store(arr.t, h.t, n.t), arr.ty)
    child2 = V(z3.Store(child.t, prev.t, h.t), child.ty)
    post = st.fork()
    _fork_env(v, post, cs2, arr2, child2)
    for name, (dom, sec, text) in INV_FORK.items():
        second = {'c': c0, 'm': m0, None: None}[sec]
        v.oblige(post, _fork_clause(v, post, name, k0, second), "C04:lemma:preserved:" + name,
                 "%s   [for arbitrary k%s of the new state]" % (text, (', ' + sec) if sec else ''))
    v.oblige(post, v.spec_bool("cs.current_chain_hash is not None and cs.current_chain_hash in cs.block_by_hash and h in cs.block_by_hash", post),
             "C04:lemma:preserved:nonempty", "after an arrival the state has a stored head")
    # base case: the empty state satisfies every clause (no stored blocks, no tips, no head)
    import skepticoin.coinstate as csmod
    base = _lemma_state(v, 'skepticoin.coinstate')
    outs = list(v.call_function(csmod.CoinState.empty.__func__, [csmod.CoinState], {}, base, inline=True))
    assert len(outs) == 1
    b_st, empty = outs[0]
    b_st.frame.vars.update(k0=k0, c0=c0, m0=m0)
    _fork_env(v, b_st, empty, arr, child)
    for name, (dom, sec, text) in INV_FORK.items():
        second = {'c': c0, 'm': m0, None: None}[sec]
        v.oblige(b_st, _fork_clause(v, b_st, name, k0, second), "C04:lemma:established:" + name, text)
    v.oblige(b_st, v.spec_bool("cs.current_chain_hash is None and not (k0 in cs.block_by_hash) and not (k0 in cs.heads)", b_st),
             "C04:lemma:established:empty", "the empty state stores nothing")
    # the statement, read off the invariant (clause head-best + arrivals-distinct): no stored block is higher than the
    # head, and a different block of the same height arrived strictly later
    v.oblige(post, v.spec_bool(
        "implies(k0 in cs.block_by_hash, HT(k0) <= HT(cs.current_chain_hash) and implies(HT(k0) == HT(cs.current_chain_hash)"
        " and k0 != cs.current_chain_hash, arr[cs.current_chain_hash] < arr[k0]))", post),
        "C04:lemma:head-is-first-seen-of-greatest-height", "statement clause 1, for arbitrary stored k0")
    # tips are exactly the stored blocks without stored children: both directions, pointwise
    v.oblige(post, v.spec_bool(
        "implies(k0 in cs.heads and c0 in cs.block_by_hash, PREV(c0) != k0)", post),
        "C04:lemma:tips-have-no-stored-child", "statement clause 2 (=>)")
    v.oblige(post, v.spec_bool(
        "implies(k0 in cs.block_by_hash and not (k0 in cs.heads), child[k0] in cs.block_by_hash and PREV(child[k0]) == k0)", post),
        "C04:lemma:non-tips-have-a-stored-child", "statement clause 2 (<=), with the ghost witness")


# ---------------------------------------------------------------------------------------------------- ghost definitions

@LM.lemma("ghost.spent_in", props=["C02", "C03"])
def ghost_spent_in(v):
    """Induction over the prefix length n for the witness form of spent_in used as an axiom by its callers:
       spent_in(r, s, n)  ==>  exists k < n with s[k].output_reference == r      (witness function defined alongside).
    Base and step are discharged here from the two defining equations only; the induction principle is the meta-step."""
    from pyvc import CLS, LIST
    from pyvc.types import to_sort
    reg = v.reg
    RefS = to_sort(CLS('OutputReference'), reg)
    InS = to_sort(LIST(CLS('Input')), reg)
    Inp = reg.classes['Input']
    f = z3.Function('spent_in_', RefS, InS, z3.IntSort(), z3.BoolSort())
    w = z3.Function('wit_', RefS, InS, z3.IntSort(), z3.IntSort())
    r = z3.Const('r', RefS)
    s = z3.Const('s', InS)
    n = z3.Int('n')
    ref = lambda k: Inp.acc['output_reference'](s[k])
    # definitions (the witness is defined by the same recursion)
    defs = [z3.Not(f(r, s, 0)),
            z3.Implies(z3.And(n >= 0, n < z3.Length(s)), f(r, s, n + 1) == z3.Or(f(r, s, n), ref(n) == r)),
            z3.Implies(z3.And(n >= 0, n < z3.Length(s)), w(r, s, n + 1) == z3.If(ref(n) == r, n, w(r, s, n)))]
    P = lambda m: z3.Implies(f(r, s, m), z3.And(0 <= w(r, s, m), w(r, s, m) < m, ref(w(r, s, m)) == r))
    st = State()
    for d in defs:
        st.assume(d)
    v.oblige(st, P(z3.IntVal(0)), "ghost:spent_in:witness:base", "n = 0")
    st2 = st.fork()
    st2.assume(z3.And(n >= 0, n < z3.Length(s)))
    st2.assume(P(n))
    v.oblige(st2, P(n + 1), "ghost:spent_in:witness:step", "n -> n + 1")


# ---------------------------------------------------------------------------------------------------- C02

NN_TEXT = "every(OutputReference, lambda r: implies(r in %s, %s[r].value >= 0))"
NOTSPENT = "all(all(x.output_reference != %s for x in txs[1 + j].inputs) for j in range(%s))"
FEES = "sum(get_transaction_fee(txs[1 + j], U0) for j in range(%s))"


def _c02_setup(v):
    """symbolic initial unspent set U0 and transaction list txs of a block, with what full validation establishes about
    them (distinct references, references in U0, values in range), A-FRESH and non-negative values in U0"""
    from pyvc import CLS, LIST, MAP
    st = _lemma_state(v, 'skepticoin.consensus')
    U0 = v.fresh('U0', MAP(CLS('OutputReference'), CLS('Output')))
    txs = v.fresh('txs', LIST(CLS('Transaction')))
    st.frame.vars.update(U0=U0, txs=txs)
    st.assume(v.spec_bool("len(txs) >= 1", st))
    H = {
        'distinct': "all(all(all(all((a2 == a and b2 == b) or txs[1 + a].inputs[b].output_reference != txs[1 + a2].inputs[b2].output_reference"
                    " for b2 in range(len(txs[1 + a2].inputs))) for a2 in range(len(txs) - 1))"
                    " for b in range(len(txs[1 + a].inputs))) for a in range(len(txs) - 1))",
        'refs-in-U0': "all(all(x.output_reference in U0 for x in txs[1 + a].inputs) for a in range(len(txs) - 1))",
        'fresh': "every(OutputReference, lambda r: implies(r in U0, all(t.hash() != r.hash for t in txs)))",
        'U0-nonneg': NN_TEXT % ("U0", "U0"),
        'outs-nonneg': "all(all(o.value >= 0 for o in t.outputs) for t in txs)",
    }
    for text in H.values():
        st.assume(v.spec_bool(text, st))
    return st, U0, txs


@LM.lemma("C02.apply-block-total", props=["C02"])
def c02_apply_block_total(v):
    """Induction over the transactions of a block: after the reward and the first i other transactions,
       (a) every value in the set is >= 0,
       (b) every output of U0 not spent by those i transactions is still there unchanged,
       (c) total <= total(U0) + reward outputs - fees of those i transactions (fees measured in U0).
    Base and step are discharged from the verified contract of uto_apply_transaction."""
    UT = "skepticoin.balances.uto_apply_transaction"
    # ---------------- base: the reward transaction
    st, U0, txs = _c02_setup(v)
    st.frame.vars['M0'] = v.spec_value("G.uto_prefix(U0, txs, 0)", st)
    st.assume(v.spec_bool("G.uto_tx_ok(U0, txs[0], True)", st))
    assert v.use_contract(st, UT, unspent_transaction_outs=U0, transaction=v.spec_value("txs[0]", st), is_coinbase=True)
    r1 = v.fresh('r1', CLS_('OutputReference'))
    st.frame.vars['r1'] = r1
    v.oblige(st, v.spec_bool("implies(r1 in M0, M0[r1].value >= 0)", st), "C02:lemma:base:a-nonneg", "values >= 0 after the reward")
    v.oblige(st, v.spec_bool("implies(r1 in U0, r1 in M0 and same(M0[r1], U0[r1]))", st), "C02:lemma:base:b-kept",
             "outputs of U0 survive the reward transaction (A-FRESH)")
    v.oblige(st, v.spec_bool("G.total(M0) <= G.total(U0) + sum(o.value for o in txs[0].outputs) - %s" % (FEES % "0"), st),
             "C02:lemma:base:c-total", "total after the reward")
    # ---------------- step: transaction t = txs[1 + i]; every sub-step names its premises (pyvc.proof)
    from pyvc.proof import Proof
    st, U0, txs = _c02_setup(v)
    P = Proof(v, st, "C02:lemma:step:")
    for name, text in [
        ('len', "len(txs) >= 1"),
        ('distinct', "all(all(all(all((a2 == a and b2 == b) or txs[1 + a].inputs[b].output_reference != txs[1 + a2].inputs[b2].output_reference"
                     " for b2 in range(len(txs[1 + a2].inputs))) for a2 in range(len(txs) - 1))"
                     " for b in range(len(txs[1 + a].inputs))) for a in range(len(txs) - 1))"),
        ('refs-in-U0', "all(all(x.output_reference in U0 for x in txs[1 + a].inputs) for a in range(len(txs) - 1))"),
        ('fresh', "every(OutputReference, lambda r: implies(r in U0, all(t.hash() != r.hash for t in txs)))"),
        ('outs-nonneg', "all(all(o.value >= 0 for o in t.outputs) for t in txs)"),
    ]:
        P.assume(name, text)
    P.fresh('i', INT)
    P.assume('i-range', "0 <= i < len(txs) - 1")
    Mi = P.let('Mi', "G.uto_prefix(U0, txs, i)")
    P.let('Mn', "G.uto_prefix(U0, txs, i + 1)")
    t = P.let('t', "txs[1 + i]")
    P.assume('ok', "G.uto_tx_ok(Mi, t, False)")
    # induction hypothesis
    P.assume('ih-a', NN_TEXT % ("Mi", "Mi"))
    P.assume('ih-b', "every(OutputReference, lambda r: implies(r in U0 and %s, r in Mi and same(Mi[r], U0[r])))" % (NOTSPENT % ("r", "i")))
    P.assume('ih-c', "G.total(Mi) <= G.total(U0) + sum(o.value for o in txs[0].outputs) - %s" % (FEES % "i"))
    P.have('t-outs-nonneg', "all(o.value >= 0 for o in t.outputs)", using=['outs-nonneg', 'i-range', 'len'])
    assert P.use('tx', UT, unspent_transaction_outs=Mi, transaction=t, is_coinbase=False)
    TX_DOM, TX_VAL, TX_NN, TX_TOTAL, TX_INS = ['tx[%d]' % k for k in range(5)]
    # (a) values stay >= 0
    Pa = P.fork()
    r1 = Pa.fresh('r1', CLS_('OutputReference'))
    Pa.inst('nn@r1', TX_NN, r1)
    Pa.have('a-nonneg', "implies(r1 in Mn, Mn[r1].value >= 0)", using=['nn@r1', 'i-range'])
    # (b) an arbitrary r1 of U0 not spent by the first i + 1 transactions is still there, unchanged
    Pb = P.fork()
    r1 = Pb.fresh('r1', CLS_('OutputReference'))
    Pb.assume('r1-in-U0', "r1 in U0")
    Pb.assume('ns-next', NOTSPENT % ("r1", "i + 1"))
    Pb.have('b-not-spent-before', NOTSPENT % ("r1", "i"), using=['ns-next', 'i-range'])
    Pb.have('b-not-spent-by-t', "all(x.output_reference != r1 for x in t.inputs)", using=['ns-next', 'i-range'])
    Pb.assume('wit', "G.spent_in_witness(r1, t.inputs, len(t.inputs))")
    Pb.have('b-not-in-spent-prefix', "not G.spent_in(r1, t.inputs, len(t.inputs))", using=['wit', 'b-not-spent-by-t'])
    Pb.have('b-not-created-by-t', "t.hash() != r1.hash", using=['fresh', 'r1-in-U0', 'i-range', 'len'])
    Pb.inst('ih-b@r1', 'ih-b', r1)
    Pb.inst('dom@r1', TX_DOM, r1)
    Pb.inst('val@r1', TX_VAL, r1)
    Pb.have('b-kept', "r1 in Mn and same(Mn[r1], U0[r1])",
            using=['ih-b@r1', 'r1-in-U0', 'b-not-spent-before', 'dom@r1', 'val@r1', 'b-not-in-spent-prefix', 'b-not-created-by-t', 'i-range'])
    # (c) the inputs of t refer to the same outputs in Mi as in U0, so t's fee is the one validation computed in U0
    Pk = P.fork()
    Pk.fresh('k1', INT)
    Pk.assume('k1-range', "0 <= k1 < len(t.inputs)")
    rk = Pk.let('rk', "t.inputs[k1].output_reference")
    Pk.have('c-input-in-U0', "rk in U0", using=['refs-in-U0', 'i-range', 'k1-range'])
    Pk.have('c-input-not-spent-before', NOTSPENT % ("rk", "i"), using=['distinct', 'i-range', 'k1-range'])
    Pk.inst('ih-b@rk', 'ih-b', rk)
    Pk.have('c-input-agrees', "rk in Mi and same(Mi[rk], U0[rk])", using=['ih-b@rk', 'c-input-in-U0', 'c-input-not-spent-before'])
    Pc = P.fork()
    Pc.forall_intro('agree', "all(same(U0[x.output_reference], Mi[x.output_reference]) for x in t.inputs)", proved_by='c-input-agrees')
    Pc.have('c-inputs-in-U0', "all(x.output_reference in U0 for x in t.inputs)", using=['refs-in-U0', 'i-range'])
    assert Pc.use('fee', "skepticoin.consensus.get_transaction_fee", transaction=t, unspent_transactions=U0)
    Pc.inst('total@U0', TX_TOTAL, U0)
    Pc.have('c-total', "G.total(Mn) <= G.total(U0) + sum(o.value for o in txs[0].outputs) - %s" % (FEES % "i + 1"),
            using=['total@U0', 'agree', 'ih-c', 'fee', 'i-range'])


@LM.lemma("C02.no-inflation", props=["C02"])
def c02_no_inflation(v):
    """For every block accepted by full validation on a state whose parent set has non-negative values:
         total(unspent set of the block) <= total(unspent set of the parent) + subsidy(height),
       and with the closed-form cumulative schedule: total <= cumulative subsidy <= 2,099,999,986,350,000."""
    from pyvc.proof import Proof
    st, block, cs, now = accepted_block(v)
    P = Proof(v, st, "C02:lemma:")
    P.facts['h>horizon'] = v.spec_bool("block.header.summary.height > 163000", st)
    U = P.let('U0', "coinstate.unspent_transaction_outs_by_hash[prev]")
    txs = st.frame.vars['txs']
    P.let('n', "len(txs)")
    # what the two block validators established (their contracts, instantiated on this block in accepted_block)
    P.assume('len', "len(txs) >= 1")
    P.assume('enc', "G.encodable(block)")                           # validate_block_by_itself ensures
    P.assume('cb-in-state', "G.coinbase_in_state(txs[0], block, coinstate)")
    P.assume('all-by-itself', "all(G.tx_by_itself(txs[1 + j]) for j in range(len(txs) - 1))")
    P.assume('no-dup-refs', "G.no_dup_refs(txs[1:])")
    for nm in ('enc', 'cb-in-state', 'all-by-itself', 'no-dup-refs'):
        v.oblige(st, P.facts[nm], "C02:lemma:validators-gave:" + nm, "follows from the validators' contracts on an accepted block")
    assert P.use('cb', CQ + "validate_coinbase_transaction_in_coinstate", transaction=v.spec_value("txs[0]", st), block=block, coinstate=cs)
    assert P.use('dup', CQ + "validate_no_duplicate_output_references_in_transactions", transactions=v.spec_value("txs[1:]", st))
    # hypotheses that are invariants of validated chains / named assumptions
    P.assume('U0-nonneg', NN_TEXT % ("U0", "U0"))                    # Inv: stored unspent sets hold non-negative values
    P.assume('fresh', "every(OutputReference, lambda r: implies(r in U0, all(t.hash() != r.hash for t in txs)))")   # A-FRESH
    v.assumptions_used.add('A-FRESH')
    P.assume('applied', "G.uto_block_ok(U0, block)")                 # the block was applied (add_block_no_validation returned)
    assert P.use('apply', "skepticoin.balances.uto_apply_block", unspent_transaction_outs=U, block=block)
    Ub = P.let('Ub', "uto_apply_block(U0, block)")
    # every output value of the block is >= 0: reward outputs by A-ENC, the others by the stand-alone rules
    Po = P.fork()
    Po.fresh('m1', INT)
    Po.fresh('o1', INT)
    Po.assume('m1-range', "0 <= m1 < len(txs)")
    Po.assume('o1-range', "0 <= o1 < len(txs[m1].outputs)")
    Po.assume('enc@', "G.encodable_fact(block, m1, o1)")
    Po.have('out-nonneg', "txs[m1].outputs[o1].value >= 0", using=['enc', 'enc@'])
    P.forall_intro('outs-nonneg', "all(all(o.value >= 0 for o in t.outputs) for t in txs)", proved_by='out-nonneg')
    # the hypotheses of the induction lemma C02.apply-block-total hold for (U0, txs) ...
    P.have('distinct', "all(all(all(all((a2 == a and b2 == b) or txs[1 + a].inputs[b].output_reference != txs[1 + a2].inputs[b2].output_reference"
                       " for b2 in range(len(txs[1 + a2].inputs))) for a2 in range(len(txs) - 1))"
                       " for b in range(len(txs[1 + a].inputs))) for a in range(len(txs) - 1))", using=['dup[0]', 'len'])
    P.have('refs-in-U0', "all(all(x.output_reference in U0 for x in txs[1 + a].inputs) for a in range(len(txs) - 1))", using=['cb[4]', 'len'])
    # ... so its conclusion (c) holds at i = len(txs) - 1 (induction over the transactions, base and step proved there)
    P.assume('induction', "G.total(G.uto_prefix(U0, txs, len(txs) - 1)) <= G.total(U0) + sum(o.value for o in txs[0].outputs) - %s"
             % (FEES % "len(txs) - 1"))
    P.have('all-refs-in-U0', "all(all(i.output_reference in U0 for i in t.inputs) for t in txs[1:])", using=['cb[4]'])
    assert P.use('fees', CQ + "get_block_fees", non_coinbase_transactions=v.spec_value("txs[1:]", st), unspent_transaction_outs=U)
    P.have('per-block', "G.total(Ub) <= G.total(U0) + get_block_subsidy(block.header.summary.height)",
           using=['induction', 'apply[3]', 'cb[3]', 'fees[0]', 'len'])
    # cumulative: with the parent's total bounded by the schedule up to its height
    P.assume('parent-bound', "G.total(U0) <= G.cum_subsidy(block.header.summary.height - 1)")
    assert P.use('sub', CQ + "get_block_subsidy", height=v.spec_value("block.header.summary.height", st))
    P.have('cumulative', "G.total(Ub) <= G.cum_subsidy(block.header.summary.height)", using=['per-block', 'parent-bound', 'sub[0]', 'h>horizon'])
    P.have('maximum', "G.total(Ub) <= 2099999986350000", using=['cumulative', 'h>horizon'])


@LM.lemma("C16.cumulative", props=["C16", "C02"])
def c16_cumulative(v):
    """the closed form G.cum_subsidy is the running sum of the schedule, and never exceeds the documented maximum"""
    st = _lemma_state(v)
    h = v.fresh('h', INT)
    st.frame.vars['h'] = h
    v.oblige(st, v.spec_bool("G.cum_subsidy(0) == G.era_subsidy(0)", st), "C16:lemma:cum:base", "cum(0) = subsidy(0)")
    s1 = st.fork().assume(v.spec_bool("h >= 1", st))
    v.oblige(s1, v.spec_bool("G.cum_subsidy(h) == G.cum_subsidy(h - 1) + G.era_subsidy(h // %d)" % DOC_HALVING_INTERVAL, s1),
             "C16:lemma:cum:step", "cum(h) = cum(h-1) + subsidy(h)")
    s2 = st.fork().assume(v.spec_bool("h >= 0", st))
    v.oblige(s2, v.spec_bool("G.cum_subsidy(h) <= %d" % DOC_MAX_SUPPLY, s2), "C16:lemma:cum:bounded-by-maximum", "cum(h) <= maximum supply")


# ---------------------------------------------------------------------------------------------------- C03

@LM.lemma("C03.replay", props=["C03"])
def c03_replay(v):
    """Inv-replay: for every stored block k, the unspent set stored at k is uto_apply_block applied to the set stored at
    k's parent (the empty set for a root) and block k - i.e. the fold of uto_apply_block along k's own ancestors, whatever
    else is stored and in whatever order it arrived.  Established by the empty state, preserved by every arrival
    (pointwise, from the whole-view post-condition of add_block_no_validation)."""
    from pyvc import CLS, BYTES
    from pyvc.proof import Proof
    st = _lemma_state(v, 'skepticoin.coinstate')
    cs = v.fresh('cs', CLS('CoinState'))
    block = v.fresh('block', CLS('Block'))
    st.frame.vars.update(cs=cs, block=block)
    P = Proof(v, st, "C03:lemma:replay:")
    P.let('h', "block.hash()")
    P.let('prev', "block.header.summary.previous_block_hash")
    k0 = P.fresh('k0', BYTES)
    REPLAY = ("implies(%(k)s in %(cs)s.block_by_hash, %(k)s in %(cs)s.unspent_transaction_outs_by_hash and "
              "same(%(cs)s.unspent_transaction_outs_by_hash[%(k)s], uto_apply_block("
              "ite(%(cs)s.block_by_hash[%(k)s].header.summary.previous_block_hash == ZERO32, EMPTY_UTXO,"
              " %(cs)s.unspent_transaction_outs_by_hash[%(cs)s.block_by_hash[%(k)s].header.summary.previous_block_hash]),"
              " %(cs)s.block_by_hash[%(k)s])))")
    # the arriving block is new; no stored block names it as parent (parents arrive before children); ids are ids
    P.assume('new', "h not in cs.block_by_hash and h != ZERO32 and prev != h")      # prev is stored or the null id
    P.assume('k0-parent-not-new', "implies(k0 in cs.block_by_hash, cs.block_by_hash[k0].header.summary.previous_block_hash != h)")
    P.assume('applies', "G.applies(cs, block)")
    P.assume('inv@k0', REPLAY % {'k': 'k0', 'cs': 'cs'})
    assert P.use('new-state', "skepticoin.coinstate.CoinState.add_block_no_validation", self=cs, block=block)
    P.let('cs2', "cs.add_block_no_validation(block)")
    P.have('preserved', REPLAY % {'k': 'k0', 'cs': 'cs2'},
           using=['new', 'k0-parent-not-new', 'inv@k0', 'new-state[0]', 'new-state[1]'])
    # earlier entries are untouched: the frame, stated on the maps (snapshots obtained earlier are these values)
    P.have('earlier-entries-untouched',
           "implies(k0 != h, same(cs2.unspent_transaction_outs_by_hash[k0], cs.unspent_transaction_outs_by_hash[k0])"
           " and (k0 in cs2.block_by_hash) == (k0 in cs.block_by_hash))",
           using=['new-state[0]', 'new-state[1]'])
    # base: the empty state stores nothing
    import skepticoin.coinstate as csmod
    base = _lemma_state(v, 'skepticoin.coinstate')
    outs = list(v.call_function(csmod.CoinState.empty.__func__, [csmod.CoinState], {}, base, inline=True))
    b_st, empty = outs[0]
    b_st.frame.vars.update(cs=empty, k0=k0)
    v.oblige(b_st, v.spec_bool(REPLAY % {'k': 'k0', 'cs': 'cs'}, b_st), "C03:lemma:replay:established", "empty state")


# ---------------------------------------------------------------------------------------------------- C13 (structural)

def _repo_modules():
    import os, ast
    import skepticoin
    root = os.path.dirname(skepticoin.__file__)
    for dp, _dn, fns in os.walk(root):
        for fn in fns:
            if fn.endswith('.py'):
                path = os.path.join(dp, fn)
                yield path, ast.parse(open(path).read())


MUTATORS = {'append', 'extend', 'insert', 'pop', 'remove', 'clear', 'sort', 'reverse', 'add', 'update', 'discard', 'setdefault', 'popitem'}


def writers_of(attr_name):
    """qualified names of the functions that assign, delete or in-place mutate an attribute called attr_name"""
    import ast, os
    found = set()
    for path, tree in _repo_modules():
        mod = os.path.splitext(os.path.basename(path))[0]

        class W(ast.NodeVisitor):
            def __init__(self):
                self.stack = []

            def visit_ClassDef(self, n):
                self.stack.append(n.name)
                self.generic_visit(n)
                self.stack.pop()

            def visit_FunctionDef(self, n):
                self.stack.append(n.name)
                self.generic_visit(n)
                self.stack.pop()

            def hit(self):
                found.add(mod + '.' + '.'.join(self.stack))

            def visit_Attribute(self, n):
                if n.attr == attr_name and isinstance(n.ctx, (ast.Store, ast.Del)):
                    self.hit()
                self.generic_visit(n)

            def visit_Subscript(self, n):
                if isinstance(n.ctx, (ast.Store, ast.Del)) and isinstance(n.value, ast.Attribute) and n.value.attr == attr_name:
                    self.hit()
                self.generic_visit(n)

            def visit_Call(self, n):
                f = n.func
                if isinstance(f, ast.Attribute) and f.attr in MUTATORS and isinstance(f.value, ast.Attribute) and f.value.attr == attr_name:
                    self.hit()
                self.generic_visit(n)

            def visit_AugAssign(self, n):
                if isinstance(n.target, ast.Attribute) and n.target.attr == attr_name:
                    self.hit()
                self.generic_visit(n)
        W().visit(tree)
    return found


@LM.lemma("C13.writers", props=["C13"])
def c13_writers(v):
    """the pool invariant is an invariant of the program only if nothing outside the contracted writers touches the pool
    or installs a chain state: repository-wide scan of the real source"""
    st = State()
    pool_writers = writers_of('transaction_pool')
    allowed_pool = {'manager.ChainManager.__init__', 'manager.ChainManager.add_transaction_to_pool',
                    'manager.ChainManager._cleanup_transaction_pool_for_coinstate',
                    'manager.ChainManager._cleanup_transaction_pool_for_coinstate.is_valid'}
    v.oblige(st, z3.BoolVal(pool_writers <= allowed_pool), "C13:lemma:writers-of-the-pool-are-under-contract",
             "writers found: %s" % sorted(pool_writers))
    cs_writers = {w for w in writers_of('coinstate') if w.startswith('manager.ChainManager')}
    v.oblige(st, z3.BoolVal(cs_writers <= {'manager.ChainManager.set_coinstate', 'manager.ChainManager.__init__'}),
             "C13:lemma:chain-state-of-the-manager-is-installed-only-by-set_coinstate", "writers found: %s" % sorted(cs_writers))
    # lock discipline of the two public writers: every access to the guarded fields lies inside `with self.lock`
    import ast, inspect, textwrap
    import skepticoin.networking.local_peer  # noqa (import cycle)
    import skepticoin.networking.manager as m
    for fname in ('add_transaction_to_pool', 'set_coinstate', 'get_state'):
        node = ast.parse(textwrap.dedent(inspect.getsource(getattr(m.ChainManager, fname)))).body[0]
        outside = []

        def walk(n, locked):
            if isinstance(n, ast.With) and any(isinstance(i.context_expr, ast.Attribute) and i.context_expr.attr == 'lock' for i in n.items):
                for b in n.body:
                    walk(b, True)
                return
            if isinstance(n, ast.Attribute) and n.attr in ('coinstate', 'transaction_pool', 'last_known_valid_coinstate') and not locked:
                outside.append(n.lineno)
            for c in ast.iter_child_nodes(n):
                walk(c, locked)
        for b in node.body:
            walk(b, False)
        v.oblige(st, z3.BoolVal(not outside), "C13:lemma:lock-discipline:" + fname,
                 "accesses to guarded fields outside `with self.lock` at relative lines %s" % outside)


# ---------------------------------------------------------------------------------------------------- C20 (structural)

SENSITIVE_CALLS = {'set_coinstate', 'add_transaction_to_pool', 'save_block', 'flush_blocks', 'flush_blocks_to_disk',
                   'add_block_to_buffer', 'write_blocks_to_disk'}
SENSITIVE_ATTRS = {'write_buffer', 'transaction_pool_WRITE', 'coinstate_WRITE', 'last_known_valid_coinstate_WRITE'}


def _sensitive_ops(fn_node):
    """names of state-changing operations (chain state, pool, block store) occurring textually in a function body"""
    import ast
    ops = set()
    for n in ast.walk(fn_node):
        if isinstance(n, ast.Call) and isinstance(n.func, ast.Attribute) and n.func.attr in SENSITIVE_CALLS:
            ops.add(n.func.attr)
        if isinstance(n, ast.Attribute) and n.attr == 'write_buffer':
            ops.add('write_buffer')
        if isinstance(n, ast.Attribute) and isinstance(n.ctx, (ast.Store, ast.Del)) and n.attr in (
                'coinstate', 'transaction_pool', 'last_known_valid_coinstate'):
            ops.add(n.attr + '=')
    return ops


@LM.lemma("C20.handler-frames", props=["C20"])
def c20_handler_frames(v):
    """Which per-connection code can reach an operation that changes chain state, pool or block store: only the block and
    transaction handlers (and the dispatchers above them); their rejecting paths change nothing by their own contracts
    (C09, C13).  Every other message handler, the framing code and all decoders reach none.  Computed over the real
    AST of remote_peer.py / messages.py / serialization.py / datatypes.py / signing.py (call graph through self.<method>,
    self.receiver / self.peer, and module-level functions)."""
    import ast, inspect
    import skepticoin.networking.local_peer  # noqa (import cycle)
    import skepticoin.networking.remote_peer as rp
    import skepticoin.networking.messages as msg
    import skepticoin.serialization as ser
    import skepticoin.datatypes as dt
    import skepticoin.signing as sg
    st = State()
    tree = ast.parse(inspect.getsource(rp))
    methods = {}
    for cls in [n for n in tree.body if isinstance(n, ast.ClassDef)]:
        for f in [n for n in cls.body if isinstance(n, ast.FunctionDef)]:
            methods[f.name] = f         # method names are unique across the classes of this module (checked below)
    names = [f.name for cls in tree.body if isinstance(cls, ast.ClassDef) for f in cls.body if isinstance(f, ast.FunctionDef)
             and f.name not in ('__init__', 'step')]
    v.oblige(st, z3.BoolVal(len(names) == len(set(names))), "C20:lemma:method-names-unique", "call graph by method name is unambiguous")
    direct = {m: _sensitive_ops(f) for m, f in methods.items()}
    calls = {}
    for m, f in methods.items():
        cs = set()
        for n in ast.walk(f):
            if isinstance(n, ast.Call) and isinstance(n.func, ast.Attribute) and n.func.attr in methods:
                cs.add(n.func.attr)
        calls[m] = cs
    reach = {m: set(ops) for m, ops in direct.items()}
    changed = True
    while changed:
        changed = False
        for m in methods:
            for c in calls[m]:
                if not reach[c] <= reach[m]:
                    reach[m] |= reach[c]
                    changed = True
    may_change = sorted(m for m in methods if reach[m])
    allowed = {'handle_block_received', 'handle_transaction_received', 'handle_data_message_received',
               'handle_message_received', 'handle_message_data', 'receive', 'handle_receive_data'}
    v.oblige(st, z3.BoolVal(set(may_change) <= allowed), "C20:lemma:only-block-and-transaction-handlers-reach-node-state",
             "methods that can reach a state-changing operation: %s" % may_change)
    v.oblige(st, z3.BoolVal(bool(direct.get('handle_block_received')) and bool(reach.get('handle_transaction_received'))),
             "C20:lemma:scan-is-not-vacuous", "the scan does see the two handlers that change state")
    # decoders and framing never touch node state
    for mod in (msg, ser, dt, sg):
        src = inspect.getsource(mod)
        t = ast.parse(src)
        hits = set()
        for f in ast.walk(t):
            if isinstance(f, ast.FunctionDef):
                hits |= _sensitive_ops(f)
        mentions = [w for w in ('chain_manager', 'DefaultBlockStore', 'network_manager') if w in src]
        v.oblige(st, z3.BoolVal(not hits and not mentions), "C20:lemma:decoders-are-state-free:" + mod.__name__.split('.')[-1],
                 "state-changing operations / node objects mentioned: %s %s" % (sorted(hits), mentions))
    # protocol order and unknown types end in an exception (hence, by the selector handler's contract, in a disconnect)
    hm = methods['handle_message_received']
    raises = [n for n in ast.walk(hm) if isinstance(n, ast.Raise)]
    v.oblige(st, z3.BoolVal(len(raises) >= 2 and isinstance(hm.body[-1], ast.Raise)),
             "C20:lemma:unknown-message-or-out-of-order-raises", "handle_message_received ends in `raise` and refuses non-Hello first")


# ---------------------------------------------------------------------------------------------------- C11

@LM.lemma("C11.extension", props=["C11"])
def c11_extension(v):
    """Extension lemma of the framing specification: for byte strings a, b
         parse(a) stops with residue r      ==>  parse(a + b) delivers parse(a)'s payloads, then what parse(r + b) delivers,
                                                 and ends (stops / refuses) as parse(r + b) does;
         parse(a) refuses                   ==>  parse(a + b) refuses, after the same deliveries.
    With the contract of MessageReceiver.receive (delivered' = delivered + parse_delivered(pending + chunk),
    pending' = parse_rest(pending + chunk)) this gives by induction over the chunks: what is delivered for c1, c2, ...
    is parse(c1 + c2 + ...), for every way of cutting the stream.  Here: induction over the frames of `a`, base (no
    complete frame in a) and step (a starts with a complete frame; hypothesis for the rest of a)."""
    from pyvc.proof import Proof
    from pyvc import BYTES
    st = _lemma_state(v, 'skepticoin.networking.remote_peer')
    a = v.fresh('a', BYTES)
    b = v.fresh('b', BYTES)
    st.frame.vars.update(a=a, b=b)
    CLAIM_OK = ("(G.parse_ok(%(a)s + b) == G.parse_ok(G.parse_rest(%(a)s) + b))"
                " and same(G.parse_delivered(%(a)s + b), G.parse_delivered(%(a)s) + G.parse_delivered(G.parse_rest(%(a)s) + b))"
                " and G.parse_rest(%(a)s + b) == G.parse_rest(G.parse_rest(%(a)s) + b)")
    CLAIM_REFUSED = "(not G.parse_ok(%(a)s + b)) and same(G.parse_delivered(%(a)s + b), G.parse_delivered(%(a)s))"
    FIRST_FRAME = ("len(a) >= 8 and a[:4] == MAGIC and G.be(a[4:8]) <= 33554432 and len(a) >= 8 + G.be(a[4:8])")
    # ---- base: a contains no complete frame and no refusal point -> parse(a) stops at once with residue a
    P = Proof(v, st.fork(), "C11:lemma:extension:")
    P.assume('stuck', "G.parse_ok(a) and len(G.parse_delivered(a)) == 0 and G.parse_rest(a) == a")
    P.have('base-stops', CLAIM_OK % {'a': 'a'}, using=['stuck'])
    # ---- base: a refuses at its very first frame header (wrong magic / over-limit length)
    P2 = Proof(v, st.fork(), "C11:lemma:extension:")
    P2.assume('refused-at-head', "(len(a) >= 4 and a[:4] != MAGIC) or (len(a) >= 8 and a[:4] == MAGIC and G.be(a[4:8]) > 33554432)")
    P2.have('base-refuses', CLAIM_REFUSED % {'a': 'a'}, using=['refused-at-head'])
    # ---- step: a starts with a complete frame; t = the rest of a; hypothesis: the claim for t
    P3 = Proof(v, st.fork(), "C11:lemma:extension:")
    P3.assume('first-frame', FIRST_FRAME)
    P3.let('t', "a[8 + G.be(a[4:8]):]")
    P3.have('step-unfold-a', "G.parse_ok(a) == G.parse_ok(t) and same(G.parse_delivered(a), [a[8:8 + G.be(a[4:8])]] + G.parse_delivered(t))"
            " and G.parse_rest(a) == G.parse_rest(t)", using=['first-frame'])
    P3.have('step-unfold-ab', "G.parse_ok(a + b) == G.parse_ok(t + b)"
            " and same(G.parse_delivered(a + b), [a[8:8 + G.be(a[4:8])]] + G.parse_delivered(t + b))"
            " and G.parse_rest(a + b) == G.parse_rest(t + b)", using=['first-frame'])
    P3a = P3.fork()
    P3a.assume('t-ok', "G.parse_ok(t)")
    P3a.assume('ih-ok', CLAIM_OK % {'a': 't'})
    P3a.have('step-stops', "implies(G.parse_ok(a), %s)" % (CLAIM_OK % {'a': 'a'}), using=['step-unfold-a', 'step-unfold-ab', 't-ok', 'ih-ok'])
    P3b = P3.fork()
    P3b.assume('t-refused', "not G.parse_ok(t)")
    P3b.assume('ih-refused', CLAIM_REFUSED % {'a': 't'})
    P3b.have('step-refuses', "implies(not G.parse_ok(a), %s)" % (CLAIM_REFUSED % {'a': 'a'}),
             using=['step-unfold-a', 'step-unfold-ab', 't-refused', 'ih-refused'])
    # the specification's constants are the code's
    import skepticoin.networking.remote_peer as rp
    from skepticoin.networking.params import MAX_MESSAGE_SIZE
    from .ghosts import FRAME_MAGIC, FRAME_LIMIT
    v.oblige(st, z3.BoolVal(rp.MAGIC == FRAME_MAGIC and MAX_MESSAGE_SIZE == FRAME_LIMIT), "C11:lemma:constants",
             "magic and limit of the specification are those of the code")


# ---------------------------------------------------------------------------------------------------- C17 (merkle)

@LM.lemma("C17.lean", props=["C17"])
def c17_lean(v):
    """lean/Merkle.lean (Lean 4 core): in the free hash algebra the specification function mroot determines the ordered
    list of ids.  The file is re-checked by the Lean kernel on every run; a `sorry` or any error fails the obligations."""
    import os, subprocess, re
    st = State()
    home = os.environ.get('VERIF_HOME') or os.path.dirname(os.path.dirname(os.path.abspath(__file__)))
    src = os.path.join(home, 'lean', 'Merkle.lean')
    text = open(src).read()
    try:
        r = subprocess.run(['lean', src], capture_output=True, text=True, timeout=600, cwd=os.path.dirname(src))
        out = (r.stdout + r.stderr).strip()
        ok = r.returncode == 0 and 'sorry' not in out and 'error' not in out and not re.search(r'\bsorry\b|\baxiom\b', text)
    except Exception as e:      # lean missing / timeout: undecided, never a pass
        out, ok = "lean could not be run: %s" % e, False
    for thm in ('pairUp_flat', 'root_flat', 'root_injective', 'duplicate_last_changes'):
        present = re.search(r'theorem\s+%s\b' % thm, text) is not None
        v.oblige(st, z3.BoolVal(ok and present), "C17:lemma:lean:" + thm,
                 "lean/Merkle.lean must be accepted by Lean without sorry/axiom and state theorem %s; lean said: %s" % (thm, out[:300]))
        ob = v.obligations[-1]
        ob.kind = 'lean'
        ob.backend = 'lean4'
        ob.status = 'discharged' if (ok and present) else 'unknown'     # not accepted = undecided, never a refutation
        ob.detail = out[:300]


def c17_correspondence(v, lengths):
    """the SMT specification function of the contract (ghosts mroot / mpair) and the Lean definitions (pairUp / root) are
    the same function: for lists of 1..9 symbolic entries the unfolded ghost axioms give exactly the term built by a
    transcription of the Lean equations (bounded correspondence of the two texts; the contract itself is for all lengths).
    Written as a script of small steps (one entry of one level each) so that every step is decided the same way on every run."""
    from pyvc.types import BYTES_SORT
    from pyvc.engine import Frame
    from pyvc.proof import Proof
    from .ghosts import GH, _merkle_ufs
    root, pair, sha = _merkle_ufs(v)

    def lean_pair_up(l):
        if len(l) <= 1:
            return list(l)
        return [sha(z3.Concat(l[0], l[1]))] + lean_pair_up(l[2:])

    def lean_root(l):
        return l[0] if len(l) == 1 else lean_root(lean_pair_up(l))

    def seq_of(items):
        if not items:
            return z3.Empty(z3.SeqSort(BYTES_SORT))
        us = [z3.Unit(x) for x in items]
        return us[0] if len(us) == 1 else z3.Concat(*us)

    def new_axioms(fn):
        before = len(v.func_axioms)
        fn()
        return list(v.func_axioms[before:])

    for n in lengths:
        v.func_axioms = []
        v._ax_seen = set()
        st = State()
        st.stack = [Frame({}, None, {}, 'lemma:C17.spec-correspondence')]
        P = Proof(v, st, "C17:lemma:spec-correspondence:len-%d:" % n)
        xs = [z3.Const('x%d_%d' % (n, k), BYTES_SORT) for k in range(n)]
        want = lean_root(xs)
        cur, items = seq_of(xs), xs
        P.facts['cur0'] = cur == seq_of(items)          # reflexive
        level = 0
        chain = []
        while len(items) > 1:
            nxt = lean_pair_up(items)
            half = len(nxt)
            ax_root = new_axioms(lambda: GH.ghosts['mroot'](v, st, V(cur, LIST(BYTES))))
            prev = 'pair%d_0' % level
            ax0 = new_axioms(lambda: GH.ghosts['mpair'](v, st, V(cur, LIST(BYTES)), 0))
            P.have(prev, pair(cur, z3.IntVal(0)) == seq_of([]), using=list(v.func_axioms), axioms=False)
            for k in range(half):
                axk = new_axioms(lambda: GH.ghosts['mpair'](v, st, V(cur, LIST(BYTES)), k + 1))
                name = 'pair%d_%d' % (level, k + 1)
                P.have(name, pair(cur, z3.IntVal(k + 1)) == seq_of(nxt[:k + 1]),
                       using=[prev, 'cur%d' % level] + list(v.func_axioms), axioms=False)
                prev = name
            step = 'root%d' % level
            P.have(step, root(cur) == root(pair(cur, z3.IntVal(half))), using=['cur%d' % level] + list(v.func_axioms), axioms=False)
            chain.append(step)
            cur = pair(cur, z3.IntVal(half))
            items = nxt
            level += 1
            P.facts['cur%d' % level] = P.facts[prev]
        ax_last = new_axioms(lambda: GH.ghosts['mroot'](v, st, V(cur, LIST(BYTES))))
        P.have('root%d' % level, root(cur) == items[0], using=['cur%d' % level] + list(v.func_axioms), axioms=False)
        P.have('equal', root(seq_of(xs)) == want, using=chain + ['root%d' % level], axioms=False)


for _lens in ((1, 2, 3, 4, 5), (6, 7), (8,), (9,)):
    LM.lemma("C17.spec-correspondence.len-%s" % "-".join(map(str, _lens)), props=["C17"])(
        lambda v, _l=_lens: c17_correspondence(v, _l))


# ---------------------------------------------------------------------------------------------------- C06 (tamper evidence)

@LM.lemma("C06.same-header-same-bytes", props=["C06"])
def c06_commit(v):
    """two blocks that pass full validation on the same chain state and have the same header have the same encoding: no
    alteration of the transaction part of an accepted block is accepted.  Route: the header's evidence equals the
    recomputation, whose block_hash is blake2(summary_hash + chain_sample + serialize_list(transactions)); blake2 injective
    (A-HASH, stated as hypothesis on exactly the two arguments); the prefix has the same length in both."""
    from pyvc import CLS
    from pyvc.proof import Proof
    st = _lemma_state(v)
    b1 = v.fresh('block', CLS('Block'))
    b2 = v.fresh('block2', CLS('Block'))
    cs = v.fresh('coinstate', CLS('CoinState'))
    st.frame.vars.update(block=b1, block2=b2, coinstate=cs)
    G = GH.ghosts
    P = Proof(v, st, "C06:lemma:")
    P.assume('ok1', G['ok_in_state'](v, st, b1, cs).t)
    P.assume('ok2', G['ok_in_state'](v, st, b2, cs).t)
    P.assume('full', "block.header.summary.height > 163000")
    P.assume('same-header', "same(block.header, block2.header)")
    for k, (bn, blk) in enumerate((('block', b1), ('block2', b2))):
        P.use('val%d' % k, CQ + "validate_block_in_coinstate", block=blk, coinstate=cs)
        st.frame.vars['txs%d' % k] = v.spec_value("%s.transactions" % bn, st)
        st.frame.vars['sum%d' % k] = v.spec_value("%s.header.summary" % bn, st)
        st.frame.vars['h%d' % k] = v.spec_value("%s.header.summary.height" % bn, st)
        # the three calls below are made inside validate_block_in_coinstate, which returned: so did they
        P.use('pow%d' % k, CQ + "construct_pow_evidence", _returned=True, coinstate=cs, summary=st.frame.vars['sum%d' % k],
              current_height=st.frame.vars['h%d' % k], transactions=st.frame.vars['txs%d' % k])
        st.frame.vars['sh%d' % k] = v.spec_value("construct_summary_hash(sum%d, h%d)" % (k, k), st)
        P.use('sh%d' % k, CQ + "construct_summary_hash", _returned=True, summary=st.frame.vars['sum%d' % k], current_height=st.frame.vars['h%d' % k])
        P.use('after%d' % k, CQ + "construct_pow_evidence_after_scrypt", _returned=True, summary_hash=st.frame.vars['sh%d' % k], coinstate=cs,
              summary=st.frame.vars['sum%d' % k], current_height=st.frame.vars['h%d' % k],
              transactions=st.frame.vars['txs%d' % k])
        st.frame.vars['ev%d' % k] = v.spec_value(
            "construct_pow_evidence_after_scrypt(sh%d, coinstate, sum%d, h%d, txs%d)" % (k, k, k, k), st)
        st.frame.vars['pre%d' % k] = v.spec_value("sh%d + ev%d.chain_sample + serialize_list(txs%d)" % (k, k, k), st)
    # A-HASH (injective) on the two hashed strings
    v.assumptions_used.add('A-HASH')
    P.assume('blake2-injective-here', "implies(blake2(pre0) == blake2(pre1), pre0 == pre1)")
    P.have('same-hashed-string', "pre0 == pre1",
           using=['ok1', 'ok2', 'full', 'same-header', 'val0', 'val1', 'pow0', 'pow1', 'after0', 'after1', 'blake2-injective-here'])
    P.have('same-prefix', "sh0 == sh1 and ev0.chain_sample == ev1.chain_sample and len(sh0) == 32",
           using=['same-header', 'full', 'ok1', 'ok2', 'val0', 'val1', 'pow0', 'pow1', 'after0', 'after1', 'sh0', 'sh1'])
    P.have('same-transaction-bytes', "serialize_list(txs0) == serialize_list(txs1)", using=['same-hashed-string', 'same-prefix'])
    # ... which are the list codec's bytes (serialize_list#C06), the tail of the block's encoding (Block.stream_serialize)
    for k in (0, 1):
        P.use('list%d' % k, "skepticoin.serialization.serialize_list#C06", _returned=True, lst=st.frame.vars['txs%d' % k])
    e0 = v.spec_value("G.enc_of(block)", st)
    e1 = v.spec_value("G.enc_of(block2)", st)
    P.have('same-encoding', e0.t == e1.t, using=['same-transaction-bytes', 'list0', 'list1', 'same-header'], axioms='ground')
    # vacuity: the hypotheses (and everything instantiated from the contracts) are satisfiable together
    r, _ = v.check_sat(list(st.pc), 10000)
    v.vacuity.append(("C06:lemma:hypotheses-satisfiable", r))


@LM.lemma("C06.same-id-same-header", props=["C06"])
def c06_id(v):
    """two blocks (ids as proved under C07: sha256d of the header's encoding) with the same id have the same header - under
    collision resistance of sha256d and injectivity of the header encoding (a consequence of encode-then-decode, which C07
    only exercises): both stated as hypotheses on exactly these terms"""
    from pyvc import CLS
    from pyvc.proof import Proof
    st = _lemma_state(v, 'skepticoin.datatypes')
    b1 = v.fresh('block', CLS('Block'))
    b2 = v.fresh('block2', CLS('Block'))
    st.frame.vars.update(block=b1, block2=b2)
    P = Proof(v, st, "C06:lemma:id:")
    P.assume('ids-ok', "G.id_ok(block) and G.id_ok(block2)")
    v.current = 'lemma:C06.same-id-same-header#C07'        # the id functions under their C07 contracts
    P.use('id1', "skepticoin.datatypes.Block.hash#C07", _returned=True, self=b1)      # the ids the node assigned
    P.use('id2', "skepticoin.datatypes.Block.hash#C07", _returned=True, self=b2)
    st.frame.vars['e1'] = v.spec_value("block.header.serialize()", st)
    st.frame.vars['e2'] = v.spec_value("block2.header.serialize()", st)
    v.assumptions_used.add('A-HASH')
    P.assume('sha256d-injective-here', "implies(sha256d(e1) == sha256d(e2), e1 == e2)")
    P.assume('header-encoding-injective-here', "implies(e1 == e2, same(block.header, block2.header))")
    P.have('same-id-same-header', "implies(block.hash() == block2.hash(), same(block.header, block2.header))",
           using=['id1', 'id2', 'sha256d-injective-here', 'header-encoding-injective-here'])
    v.current = 'lemma:C06.same-id-same-header'


@LM.lemma("C06.every-field-is-encoded", props=["C06", "C07"])
def c06_fields(v):
    """every field a consensus object holds is written by its stream_serialize (scan of the real classes): a field left
    out of the encoding would be content that neither the id nor the proof-of-work evidence commits to"""
    import ast, inspect, textwrap
    import skepticoin.datatypes as D
    import skepticoin.signing as S
    st = State()
    exempt = {'cached_hash'}        # derived from the encoding (C07 ID), not content
    for cls in (D.OutputReference, D.Input, D.Output, D.Transaction, D.PowEvidence, D.BlockSummary, D.BlockHeader, D.Block,
                S.SECP256k1PublicKey, S.SECP256k1Signature, S.CoinbaseData, S.SignableEquivalent):
        init = cls.__dict__.get('__init__')
        fields = set()
        if init is not None:
            for n in ast.walk(ast.parse(textwrap.dedent(inspect.getsource(init)))):
                if isinstance(n, ast.Attribute) and isinstance(n.ctx, ast.Store) and isinstance(n.value, ast.Name) and n.value.id == 'self':
                    fields.add(n.attr)
        ser = ast.parse(textwrap.dedent(inspect.getsource(cls.__dict__['stream_serialize'])))
        read = {n.attr for n in ast.walk(ser) if isinstance(n, ast.Attribute) and isinstance(n.ctx, ast.Load)
                and isinstance(n.value, ast.Name) and n.value.id == 'self'}
        missing = sorted(fields - read - exempt)
        v.oblige(st, z3.BoolVal(not missing), "C06:lemma:every-field-encoded:" + cls.__name__,
                 "fields of %s not written by its stream_serialize: %s" % (cls.__name__, missing))


# ---------------------------------------------------------------------------------------------------- C18 (checkpoints)

@LM.lemma("C18.table", props=["C18"])
def c18_table(v):
    """the checkpoint table of the code is the pinned consensus data (no entry changed or removed; entries above the pinned
    maximum are new data this check cannot vouch for: reported, not a violation), the horizon is its highest height, and
    entry 0 is the id of the built-in genesis block"""
    from .ghosts import pinned_checkpoints
    from skepticoin.cheating import KNOWN_HASHES, MAX_KNOWN_HASH_HEIGHT
    from skepticoin.humans import computer
    from skepticoin.genesis import genesis_block_data
    from skepticoin.datatypes import Block
    from skepticoin.hash import sha256d
    st = State()
    pmax, table = pinned_checkpoints()
    changed = []
    for h, want in sorted(table.items()):
        got = KNOWN_HASHES.get(h)
        try:
            ok = got is not None and computer(got) == want
        except Exception:
            ok = False
        if not ok:
            changed.append(h)
    v.oblige(st, z3.BoolVal(not changed), "C18:lemma:pinned-entries-unchanged",
             "checkpoints changed or removed w.r.t. contracts/checkpoints_pinned.json at heights %s" % changed[:10])
    extra_below = sorted(h for h in KNOWN_HASHES if h not in table and h <= pmax)
    v.oblige(st, z3.BoolVal(not extra_below), "C18:lemma:no-new-entries-below-pinned-maximum",
             "entries inserted below the pinned maximum: %s" % extra_below[:10])
    v.oblige(st, z3.BoolVal(MAX_KNOWN_HASH_HEIGHT == max(KNOWN_HASHES)), "C18:lemma:horizon-is-highest-checkpoint",
             "MAX_KNOWN_HASH_HEIGHT = %s, max(KNOWN_HASHES) = %s" % (MAX_KNOWN_HASH_HEIGHT, max(KNOWN_HASHES)))
    v.oblige(st, z3.BoolVal(MAX_KNOWN_HASH_HEIGHT >= pmax), "C18:lemma:horizon-not-lowered",
             "the horizon (%s) is below the pinned one (%s): pinned checkpoints above it would no longer be enforced" % (MAX_KNOWN_HASH_HEIGHT, pmax))
    g = Block.deserialize(genesis_block_data)
    v.oblige(st, z3.BoolVal(computer(KNOWN_HASHES[0]) == g.hash() == sha256d(g.header.serialize()) == table[0]),
             "C18:lemma:checkpoint-0-is-the-genesis-id", "id of the built-in genesis block, recomputed from its bytes")
    newer = sorted(h for h in KNOWN_HASHES if h > pmax)
    if newer:
        v.notes = getattr(v, 'notes', []) + ["checkpoints above the pinned maximum (not verifiable here): %s" % newer[:10]]


# ---------------------------------------------------------------------------------------------------- C15 (atomic save)

@LM.lemma("C15.save-structure", props=["C15"])
def c15_save(v):
    """save_wallet never opens wallet.json itself for writing: it writes a temporary file completely (the `with` block
    closes it) and then replaces wallet.json by it in one os.replace (A-RENAME: atomic with respect to crashes).  Scan of the
    real function; the crash behaviour itself is exercised by the bounded part."""
    import ast, inspect, textwrap
    import skepticoin.wallet as w
    st = State()
    node = ast.parse(textwrap.dedent(inspect.getsource(w.save_wallet))).body[0]
    body = [b for b in node.body if not (isinstance(b, ast.Expr) and isinstance(b.value, ast.Constant))]
    opened_for_write = []
    for n in ast.walk(node):
        if isinstance(n, ast.Call) and isinstance(n.func, ast.Name) and n.func.id == 'open':
            mode = n.args[1].value if len(n.args) > 1 and isinstance(n.args[1], ast.Constant) else \
                next((k.value.value for k in n.keywords if k.arg == 'mode' and isinstance(k.value, ast.Constant)), 'r')
            name = n.args[0].value if n.args and isinstance(n.args[0], ast.Constant) else None
            if any(ch in str(mode) for ch in 'wax+'):
                opened_for_write.append(name)
    v.oblige(st, z3.BoolVal(bool(opened_for_write) and all(nm is not None and nm != 'wallet.json' for nm in opened_for_write)),
             "C15:lemma:save-writes-only-a-temporary-file", "files opened for writing: %s" % opened_for_write)
    last = body[-1] if body else None
    ok_last = (isinstance(last, ast.Expr) and isinstance(last.value, ast.Call) and ast.unparse(last.value.func) == 'os.replace'
               and len(last.value.args) == 2 and all(isinstance(a_, ast.Constant) for a_ in last.value.args)
               and last.value.args[1].value == 'wallet.json' and opened_for_write == [last.value.args[0].value])
    v.oblige(st, z3.BoolVal(bool(ok_last)), "C15:lemma:save-ends-with-one-atomic-replace",
             "last statement: %s" % (ast.unparse(last) if last is not None else None))
    in_with = all(isinstance(b, ast.With) for b in body[:-1]) and len(body) == 2
    v.oblige(st, z3.BoolVal(bool(in_with)), "C15:lemma:temporary-file-closed-before-the-replace",
             "the function is `with open(tmp, 'w') ...` followed by the replace: %s" % [type(b).__name__ for b in body])
    v.assumptions_used.add('A-RENAME')


# ---------------------------------------------------------------------------------------------------- C19 (peer book)

@LM.lemma("C19.book-writers", props=["C19"])
def c19_writers(v):
    """the invariant argument of C19 needs that nothing but the functions verified against BOOK writes the two maps of the peer
    book (scan of the real source), and the statement about retries needs the gate in step() (scanned: step() mutates the
    waiting records in place through the map, which the executor's value records do not model)."""
    import ast, inspect, textwrap
    import skepticoin.networking.local_peer  # noqa
    import skepticoin.networking.manager as m
    import skepticoin.networking.remote_peer as rp
    st = State()
    writers = set()
    for name in ('connected_peers', 'disconnected_peers'):
        writers |= {w for w in writers_of(name)}
    allowed = {'manager.NetworkManager.__init__', 'manager.NetworkManager.handle_peer_connected',
               'manager.NetworkManager.handle_peer_disconnected',
               'remote_peer.ConnectedRemotePeer.handle_hello_message_received',
               'remote_peer.ConnectedRemotePeer.handle_peers_message_received',
               'threading.NetworkingThread.__init__', 'local_peer.LocalPeer.__init__'}
    v.oblige(st, z3.BoolVal(writers <= allowed), "C19:lemma:book-writers-are-the-known-ones", "writers found: %s" % sorted(writers))

    def fn_ast(f):
        return ast.parse(textwrap.dedent(inspect.getsource(f))).body[0]

    # the retry gate in step(): an outgoing connection is started only under the three conditions, and the attempt time is
    # recorded first (so that the back-off of is_time_to_connect - verified by contract - applies to the next attempt)
    node = fn_ast(m.NetworkManager.step)
    calls = [x for x in ast.walk(node) if isinstance(x, ast.Call) and isinstance(x.func, ast.Attribute)
             and x.func.attr == 'start_outgoing_connection']
    gate_ok = len(calls) == 1
    for n in ast.walk(node):
        if isinstance(n, ast.If) and any(c in list(ast.walk(n)) for c in calls):
            test = ast.unparse(n.test)
            arg = ast.unparse(calls[0].args[0]) if calls and calls[0].args else '?'
            gate_ok = gate_ok and ("%s.is_time_to_connect(current_time)" % arg) in test and ("%s.direction == OUTGOING" % arg) in test \
                and ("(%s.host, %s.port) not in self.my_addresses" % (arg, arg)) in test and isinstance(n.test, ast.BoolOp) \
                and isinstance(n.test.op, ast.And)
            first = n.body[0]
            gate_ok = gate_ok and isinstance(first, ast.Assign) and ast.unparse(first.targets[0]) == "%s.last_connection_attempt" % arg \
                and ast.unparse(first.value) == 'current_time'
            break
    else:
        gate_ok = False
    v.oblige(st, z3.BoolVal(bool(gate_ok)), "C19:lemma:retry-gate-in-step",
             "start_outgoing_connection only under `direction == OUTGOING and address not own and is_time_to_connect(now)`, "
             "after recording the attempt time")


# ---------------------------------------------------------------------------------------------------- C08 (block store)

@LM.lemma("C08.columns", props=["C08"])
def c08_columns(v):
    """structure of the store's row construction (scan of the real source; the round trip itself is exercised by the bounded
    part with a real sqlite file): every field of every consensus class below Block is written to a column and read back
    into the same constructor argument; every table's INSERT supplies as many values as the table has columns; all four
    INSERTs of a flush sit between one BEGIN and one COMMIT."""
    import ast, inspect, textwrap, re
    import skepticoin.blockstore as bs
    st = State()
    wsrc = textwrap.dedent(inspect.getsource(bs.BlockStore.write_blocks_to_disk))
    rsrc = "\n".join(textwrap.dedent(inspect.getsource(f)) for f in
                     (bs.BlockStore.read_blocks_from_disk, bs.BlockStore.load_inputs, bs.BlockStore.load_outputs,
                      bs.BlockStore.load_transaction_builders))
    init = textwrap.dedent(inspect.getsource(bs.BlockStore.__init__))
    # 1. fields written
    need_w = ['header.version', 'summary.height', 'summary.previous_block_hash', 'summary.merkle_root_hash', 'summary.timestamp',
              'summary.target', 'summary.nonce', 'pow_evidence.summary_hash', 'pow_evidence.chain_sample', 'pow_evidence.block_hash',
              'output_reference.hash', 'output_reference.index', 'input.signature', 'output.value', 'output.public_key']
    missing_w = [f for f in need_w if f not in wsrc]
    v.oblige(st, z3.BoolVal(not missing_w), "C08:lemma:every-field-is-written", "fields not written by write_blocks_to_disk: %s" % missing_w)
    # 2. fields read back into the constructors
    need_r = ['height=height', 'previous_block_hash=zeroify_nulls(previous_block_hash)', 'merkle_root_hash=merkle_root_hash',
              'timestamp=timestamp', 'target=target', 'nonce=nonce', 'summary_hash=pow_summary_hash', 'chain_sample=pow_chain_sample',
              'block_hash=pow_block_hash', 'OutputReference(zeroify_nulls(output_reference_hash), output_reference_index)',
              'Output(value, PublicKey.deserialize(public_key))', 'Signature.deserialize(signature)']
    flat = re.sub(r'\s+', ' ', rsrc)
    missing_r = [f for f in need_r if re.sub(r'\s+', ' ', f) not in flat]
    v.oblige(st, z3.BoolVal(not missing_r), "C08:lemma:every-column-is-read-back-into-its-field", "not found in the read path: %s" % missing_r)
    # 3. arity of the INSERTs against the CREATE TABLEs
    tables = {}
    for mt in re.finditer(r"CREATE TABLE (\w+) \((.*?)\)'''", init, re.S):
        cols = [c.strip() for c in re.split(r",\s*\n", mt.group(2)) if c.strip()
                and not c.strip().upper().startswith(('PRIMARY KEY', 'FOREIGN KEY', 'REFERENCES'))]
        tables[mt.group(1)] = len(cols)
    bad = []
    for mt in re.finditer(r'insert or ignore into (\w+) values \(([?,]+)\)', wsrc):
        if tables.get(mt.group(1)) != mt.group(2).count('?'):
            bad.append((mt.group(1), tables.get(mt.group(1)), mt.group(2).count('?')))
    v.oblige(st, z3.BoolVal(len(tables) == 4 and not bad), "C08:lemma:insert-arity-matches-schema", "tables %s, mismatches %s" % (tables, bad))
    # 4. one transaction per flush
    order = [m_.group(0) for m_ in re.finditer(r"BEGIN TRANSACTION|COMMIT|insert or ignore into \w+", wsrc)]
    ok = len(order) == 6 and order[0] == 'BEGIN TRANSACTION' and order[-1] == 'COMMIT'
    v.oblige(st, z3.BoolVal(ok), "C08:lemma:one-transaction-per-flush", "statement order: %s" % order)
    v.assumptions_used.add('A-SQL')


# ---------------------------------------------------------------------------------------------------- C07 (RT1, loop-free classes)

def _rt1(v, qual, decoder_qual=None, extra_valid=(), pick=(), suffix='', pick_class=None):
    """encode-then-decode for one class: for an arbitrary valid value x of the class whose encoder returns normally, any
    prefix and any trailing bytes, the REAL decoder run at the cursor over  prefix + enc(x) + rest  returns a value equal to
    x (field by field) with the cursor exactly behind enc(x), and does not raise.  The decoder's body is executed here
    (callees below it inlined too: these classes have no loops); enc(x) is unfolded through the real encoder."""
    from pyvc import CLS
    from pyvc.engine import Frame, Raised
    from pyvc.types import BYTES_SORT
    from .ghosts import GH
    import importlib
    cls = v.resolve(qual)
    dec_cls = v.resolve(decoder_qual) if decoder_qual else cls
    name = cls.__name__
    tag = "C07:lemma:rt1:%s%s:" % (name, suffix)
    st = State()
    st.stack.append(Frame({}, None, importlib.import_module(cls.__module__).__dict__, 'lemma:C07.rt1.' + name))
    x = v.fresh('x', CLS(name))
    v.assume_valid(x, st)
    st.frame.vars['x'] = x
    for t in extra_valid:
        st.assume(v.b(v.spec_bool(t, st)))
    for rec_text in pick:
        # the case of the lemma: which concrete class a component belongs to (hierarchies)
        st.assume(v.b(v.spec_bool(rec_text, st)))
    enc = GH.ghosts['enc_of'](v, st, x)          # unfolded encoding: the bytes the real stream_serialize writes
    st.assume(v.b(v._or([v.b(c) for c in v.last_enc_conditions])))       # x is a value the encoder accepts
    # ... unfolded through the component objects as well (their own real encoders), so that the decoder below meets bytes, not
    # summaries: every occurrence of enc(component) is replaced by the component's unfolded encoding (equal by the
    # definitional axioms enc_of states)
    for _round in range(3):
        subs = []
        todo = [enc.t]
        seen = set()
        while todo:
            e_ = todo.pop()
            if e_.get_id() in seen:
                continue
            seen.add(e_.get_id())
            if z3.is_app(e_) and e_.decl().kind() == z3.Z3_OP_UNINTERPRETED and e_.decl().name().startswith('enc') \
                    and e_.num_args() == 1 and str(e_.sort()) == str(BYTES_SORT) and not e_.arg(0).eq(x.t):
                comp = e_.arg(0)
                cname = [n for n, ci in v.reg.classes.items() if ci.ctor is not None and comp.sort() == v.reg.sorts.get(ci.root)]
                root = None
                for rn, srt in v.reg.sorts.items():
                    if srt == comp.sort():
                        root = rn
                if root is not None:
                    # (a component of a class hierarchy: the concrete class this case of the lemma is about)
                    ccls = pick_class if (pick_class and v.reg.root_of(pick_class) == root) else root
                    sub_enc = GH.ghosts['enc_of'](v, st, V(comp, CLS(ccls)))
                    st.assume(v.b(v._or([v.b(c) for c in v.last_enc_conditions])))
                    subs.append((e_, sub_enc.t))
            elif z3.is_app(e_):
                todo.extend(e_.children())
        if not subs:
            break
        enc = V(z3.substitute(enc.t, *subs), BYTES)
    r_v, _s_v = v.check_sat(list(st.pc), 10000)
    v.vacuity.append((tag + "hypotheses-satisfiable", r_v))
    pre = v.fresh('prefix', BYTES)
    rest = v.fresh('rest', BYTES)
    data = V(v.mk_concat(pre.t, enc.t, rest.t), BYTES)
    (s0, f), = list(v.new_stream([], st, data=data, pos=V(z3.Length(pre.t), INT)))
    fn = None
    for k in dec_cls.__mro__:
        if 'stream_deserialize' in k.__dict__:
            fn = k.__dict__['stream_deserialize'].__func__
            break
    v.force_inline_all = True
    # below the decoder under test: the decoders of the component classes and safe_read are executed, not summarised (their
    # contracts are of the RT2 kind and say nothing about WHICH value comes back); the VLQ pair stays a contract
    v.inline_for_rt1 = {q for q in v.contracts if q.endswith('.stream_deserialize') or q.endswith('.safe_read')}
    n_paths = 0
    try:
        for s2, r in v.call_function(fn, [dec_cls, f], {}, s0, inline=True):
            n_paths += 1
            if isinstance(r, Raised):
                v.oblige(s2, z3.BoolVal(False), tag + "decoder-accepts-the-encoding",
                         "the decoder raises %s on the encoder's output" % getattr(r.exc.cls, '__name__', r.exc.cls))
                continue
            rv = v.lift(r, s2) if not isinstance(r, V) else r
            v.oblige(s2, rv.t == x.t, tag + "decodes-to-the-same-value", "stream_deserialize(prefix + enc(x) + rest) == x")
            h = s2.heap[f.loc]
            v.oblige(s2, h.fields['pos'].t == z3.Length(pre.t) + z3.Length(enc.t), tag + "cursor-behind-the-encoding",
                     "cursor == len(prefix) + len(enc(x))")
    finally:
        v.force_inline_all = False
    v.oblige(st, z3.BoolVal(n_paths > 0), tag + "decoder-executed", "paths: %d" % n_paths)


# (Transaction and Block - the classes containing a list - stay with the bounded companion: the list decoder would need a
# second family of loop invariants and a suffix decomposition of the prefix-recursive list encoding)
LM.lemma("C07.rt1.OutputReference", props=["C07"])(lambda v: _rt1(v, "skepticoin.datatypes.OutputReference"))
LM.lemma("C07.rt1.PowEvidence", props=["C07"])(lambda v: _rt1(
    v, "skepticoin.datatypes.PowEvidence",
    extra_valid=("len(x.summary_hash) == 32", "len(x.chain_sample) == 32", "len(x.block_hash) == 32")))

for _q, _dq in (("skepticoin.signing.SECP256k1PublicKey", "skepticoin.signing.PublicKey"),
                ("skepticoin.signing.SECP256k1Signature", "skepticoin.signing.Signature"),
                ("skepticoin.signing.SignableEquivalent", "skepticoin.signing.Signature"),
                ("skepticoin.signing.CoinbaseData", "skepticoin.signing.Signature"),
                ("skepticoin.datatypes.Output", None)):
    LM.lemma("C07.rt1.%s" % _q.split('.')[-1], props=["C07"])(lambda v, _q=_q, _dq=_dq: _rt1(v, _q, _dq))
LM.lemma("C07.rt1.BlockSummary", props=["C07"])(lambda v: _rt1(
    v, "skepticoin.datatypes.BlockSummary",
    extra_valid=("len(x.previous_block_hash) == 32", "len(x.merkle_root_hash) == 32", "len(x.target) == 32")))
LM.lemma("C07.rt1.BlockHeader", props=["C07"])(lambda v: _rt1(
    v, "skepticoin.datatypes.BlockHeader",
    extra_valid=("x.version == 0",          # (the constructor sets it; there is no other way to build a header)
                 "len(x.summary.previous_block_hash) == 32", "len(x.summary.merkle_root_hash) == 32", "len(x.summary.target) == 32",
                 "len(x.pow_evidence.summary_hash) == 32", "len(x.pow_evidence.chain_sample) == 32",
                 "len(x.pow_evidence.block_hash) == 32")))
for _kind in ("SECP256k1Signature", "SignableEquivalent", "CoinbaseData"):
    LM.lemma("C07.rt1.Input.%s" % _kind, props=["C07"])(
        lambda v, _kind=_kind: _rt1(v, "skepticoin.datatypes.Input", None, pick=("isinstance(x.signature, %s)" % _kind,),
                                    suffix='.' + _kind, pick_class=_kind))
