"""Spec-level lemmas: consequences of the contracts and of the ghost definitions, discharged by the same solvers.
Each lemma creates named obligations on a fresh state."""
import re
import z3
from pyvc import V, INT, State
from pyvc.spec import ContractSet
from .ghosts import GH, era_table, COIN, DOC_INITIAL_SUBSIDY_COIN, DOC_HALVING_INTERVAL, DOC_MAX_SUPPLY

LM = ContractSet()


def _st():
    return State()


@LM.lemma("C16.schedule", props=["C16"])
def c16_schedule(v):
    """monotone, exhausted, closed-form total == documented maximum; code constants == documented constants"""
    import os
    import skepticoin.params as params
    st = _st()
    era = lambda k: GH.ghosts['era_subsidy'](v, st, V(k, INT)).t
    I = DOC_HALVING_INTERVAL
    h1, h2 = z3.Ints('h1 h2')
    tab = era_table()
    # never increases with height (all heights)
    v.oblige(st.fork().assume(z3.And(0 <= h1, h1 <= h2)), era(h1 / I) >= era(h2 / I), "C16:lemma:non-increasing")
    # zero from the point where halving exhausts it
    v.oblige(st.fork().assume(h1 >= len(tab) * I), era(h1 / I) == 0, "C16:lemma:zero-after-exhaustion")
    v.oblige(st.fork().assume(z3.And(0 <= h1, h1 < len(tab) * I)), era(h1 / I) > 0, "C16:lemma:positive-before-exhaustion")
    # era k is the initial subsidy halved k times by integer division == division by 2^k
    v.oblige(st, z3.BoolVal(all(tab[k] == (DOC_INITIAL_SUBSIDY_COIN * COIN) // (2 ** k) for k in range(len(tab)))
                            and (DOC_INITIAL_SUBSIDY_COIN * COIN) // (2 ** len(tab)) == 0),
             "C16:lemma:iterated-halving-is-division-by-power")
    v.oblige(st, era(z3.IntVal(0)) == 10 * COIN, "C16:lemma:initial-subsidy-10-coin")
    # the subsidy depends on the era only, so the sum over all heights is interval * sum of the era table
    total = I * sum(tab)
    v.oblige(st, z3.BoolVal(total == DOC_MAX_SUPPLY), "C16:lemma:total-equals-2099999986350000")
    # the real module's constants are the documented ones
    v.oblige(st, z3.BoolVal(params.MAX_SASHIMI == DOC_MAX_SUPPLY), "C16:lemma:params.MAX_SASHIMI")
    v.oblige(st, z3.BoolVal(params.SUBSIDY_HALVING_INTERVAL == I), "C16:lemma:params.SUBSIDY_HALVING_INTERVAL")
    v.oblige(st, z3.BoolVal(params.INITIAL_SUBSIDY == DOC_INITIAL_SUBSIDY_COIN * COIN), "C16:lemma:params.INITIAL_SUBSIDY")
    v.oblige(st, z3.BoolVal(params.SASHIMI_PER_COIN == COIN), "C16:lemma:params.SASHIMI_PER_COIN")
    # docs/params.md states the same maximum, interval and subsidy
    doc = open(os.path.join(os.path.dirname(os.path.dirname(params.__file__)), 'docs', 'params.md')).read()
    m = re.search(r'([0-9,]+\.[0-9]+) maximum total amount', doc)
    doc_max = None
    if m:
        whole, frac = m.group(1).replace(',', '').split('.')
        doc_max = int(whole) * COIN + int(frac.ljust(8, '0')[:8])
    v.oblige(st, z3.BoolVal(doc_max == DOC_MAX_SUPPLY), "C16:lemma:docs-maximum-supply")
    m2 = re.search(r'([0-9,]+) block halving interval', doc)
    v.oblige(st, z3.BoolVal(bool(m2) and int(m2.group(1).replace(',', '')) == I), "C16:lemma:docs-halving-interval")
    m3 = re.search(r'([0-9]+) coin subsidy', doc)
    v.oblige(st, z3.BoolVal(bool(m3) and int(m3.group(1)) == DOC_INITIAL_SUBSIDY_COIN), "C16:lemma:docs-initial-subsidy")
