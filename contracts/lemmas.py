"""Spec-level lemmas: consequences of the contracts and of the ghost definitions, discharged by the same solvers.
Each lemma creates named obligations on a fresh state."""
import re
import z3
from pyvc import V, INT, State
from pyvc.spec import ContractSet
from .ghosts import GH, era_table, COIN, DOC_INITIAL_SUBSIDY_COIN, DOC_HALVING_INTERVAL, DOC_MAX_SUPPLY

LM = ContractSet()


def _st():
    return State()


@LM.lemma("C16.schedule", props=["C16"])
def c16_schedule(v):
    """monotone, exhausted, closed-form total == documented maximum; code constants == documented constants"""
    import os
    import skepticoin.params as params
    st = _st()
    era = lambda k: GH.ghosts['era_subsidy'](v, st, V(k, INT)).t
    I = DOC_HALVING_INTERVAL
    h1, h2 = z3.Ints('h1 h2')
    tab = era_table()
    # never increases with height (all heights)
    v.oblige(st.fork().assume(z3.And(0 <= h1, h1 <= h2)), era(h1 / I) >= era(h2 / I), "C16:lemma:non-increasing")
    # zero from the point where halving exhausts it
    v.oblige(st.fork().assume(h1 >= len(tab) * I), era(h1 / I) == 0, "C16:lemma:zero-after-exhaustion")
    v.oblige(st.fork().assume(z3.And(0 <= h1, h1 < len(tab) * I)), era(h1 / I) > 0, "C16:lemma:positive-before-exhaustion")
    # era k is the initial subsidy halved k times by integer division == division by 2^k
    v.oblige(st, z3.BoolVal(all(tab[k] == (DOC_INITIAL_SUBSIDY_COIN * COIN) // (2 ** k) for k in range(len(tab)))
                            and (DOC_INITIAL_SUBSIDY_COIN * COIN) // (2 ** len(tab)) == 0),
             "C16:lemma:iterated-halving-is-division-by-power")
    v.oblige(st, era(z3.IntVal(0)) == 10 * COIN, "C16:lemma:initial-subsidy-10-coin")
    # the subsidy depends on the era only, so the sum over all heights is interval * sum of the era table
    total = I * sum(tab)
    v.oblige(st, z3.BoolVal(total == DOC_MAX_SUPPLY), "C16:lemma:total-equals-2099999986350000")
    # the real module's constants are the documented ones
    v.oblige(st, z3.BoolVal(params.MAX_SASHIMI == DOC_MAX_SUPPLY), "C16:lemma:params.MAX_SASHIMI")
    v.oblige(st, z3.BoolVal(params.SUBSIDY_HALVING_INTERVAL == I), "C16:lemma:params.SUBSIDY_HALVING_INTERVAL")
    v.oblige(st, z3.BoolVal(params.INITIAL_SUBSIDY == DOC_INITIAL_SUBSIDY_COIN * COIN), "C16:lemma:params.INITIAL_SUBSIDY")
    v.oblige(st, z3.BoolVal(params.SASHIMI_PER_COIN == COIN), "C16:lemma:params.SASHIMI_PER_COIN")
    # docs/params.md states the same maximum, interval and subsidy
    doc = open(os.path.join(os.path.dirname(os.path.dirname(params.__file__)), 'docs', 'params.md')).read()
    m = re.search(r'([0-9,]+\.[0-9]+) maximum total amount', doc)
    doc_max = None
    if m:
        whole, frac = m.group(1).replace(',', '').split('.')
        doc_max = int(whole) * COIN + int(frac.ljust(8, '0')[:8])
    v.oblige(st, z3.BoolVal(doc_max == DOC_MAX_SUPPLY), "C16:lemma:docs-maximum-supply")
    m2 = re.search(r'([0-9,]+) block halving interval', doc)
    v.oblige(st, z3.BoolVal(bool(m2) and int(m2.group(1).replace(',', '')) == I), "C16:lemma:docs-halving-interval")
    m3 = re.search(r'([0-9]+) coin subsidy', doc)
    v.oblige(st, z3.BoolVal(bool(m3) and int(m3.group(1)) == DOC_INITIAL_SUBSIDY_COIN), "C16:lemma:docs-initial-subsidy")


# ---------------------------------------------------------------------------------------------------- C01

def _lemma_state(v, modname='skepticoin.consensus'):
    import importlib
    from pyvc.engine import Frame
    st = State()
    st.stack.append(Frame({}, None, importlib.import_module(modname).__dict__, 'lemma'))
    return st


CQ = "skepticoin.consensus."


def accepted_block(v):
    """state in which a symbolic block has been accepted by full validation (both validators returned normally, height
    above the checkpoint horizon) on a symbolic chain state, with the verified contracts of the two block validators
    instantiated on it"""
    from pyvc import CLS
    st = _lemma_state(v)
    block = v.fresh('block', CLS('Block'))
    cs = v.fresh('coinstate', CLS('CoinState'))
    now = v.fresh('now', INT)
    st.frame.vars.update(block=block, coinstate=cs, now=now)
    G = GH.ghosts
    st.assume(G['ok_itself'](v, st, block, now).t)
    st.assume(G['ok_in_state'](v, st, block, cs).t)
    st.assume(v.spec_bool("block.header.summary.height > 163000", st))
    assert v.use_contract(st, CQ + "validate_block_by_itself", block=block, current_timestamp=now)
    assert v.use_contract(st, CQ + "validate_block_in_coinstate", block=block, coinstate=cs)
    st.frame.vars['prev'] = v.spec_value("block.header.summary.previous_block_hash", st)
    st.frame.vars['U'] = v.spec_value("coinstate.unspent_transaction_outs_by_hash[prev]", st)
    st.frame.vars['txs'] = v.spec_value("block.transactions", st)
    return st, block, cs, now


def pick_input(v, st, jn='j0', kn='k0', tn='t0'):
    """an arbitrary input k0 of an arbitrary non-reward transaction t0 = txs[1 + j0] of the block (skolem constants)"""
    j0 = v.fresh(jn, INT)
    k0 = v.fresh(kn, INT)
    st.frame.vars[jn] = j0
    st.frame.vars[kn] = k0
    st.assume(v.spec_bool("0 <= %s < len(txs) - 1" % jn, st))
    st.frame.vars[tn] = v.spec_value("txs[1 + %s]" % jn, st)
    st.assume(v.spec_bool("0 <= %s < len(%s.inputs)" % (kn, tn), st))
    return st.frame.vars[tn]


@LM.lemma("C01.accepted-block", props=["C01"])
def c01_accepted(v):
    st, block, cs, now = accepted_block(v)
    assert v.use_contract(st, CQ + "validate_coinbase_transaction_in_coinstate",
                          transaction=v.spec_value("txs[0]", st), block=block, coinstate=cs)
    v.oblige(st, v.spec_bool("prev in coinstate.block_by_hash and prev in coinstate.unspent_transaction_outs_by_hash", st),
             "C01:lemma:parent-stored", "the parent is a stored block whose ledger state is the one consulted")
    # an arbitrary spend in the block
    s1 = st.fork()
    t0 = pick_input(v, s1)
    prev = s1.frame.vars['prev']
    assert v.use_contract(s1, CQ + "validate_non_coinbase_transaction_in_coinstate", transaction=t0, at_hash=prev, coinstate=cs)
    assert v.use_contract(s1, CQ + "validate_non_coinbase_transaction_by_itself", transaction=t0)
    goals = {
        "spends-exist-in-parent-state": "t0.inputs[k0].output_reference in U",
        "spends-verify-under-spent-outputs-key": "G.spend_verifies(t0.inputs[k0], U[t0.inputs[k0].output_reference], t0)",
        "real-signature-objects": "isinstance(t0.inputs[k0].signature, SECP256k1Signature)",
        "not-the-null-reference": "not (t0.inputs[k0].output_reference.hash == ZERO32 and t0.inputs[k0].output_reference.index == 0)",
    }
    for name, text in goals.items():
        v.oblige(s1, v.spec_bool(text, s1), "C01:lemma:" + name, text + "   [for arbitrary non-reward t0 = txs[1+j0], input k0]")
    # no output is spent twice inside the block: two different input positions never carry the same reference
    s2 = st.fork()
    ta = pick_input(v, s2, 'j0', 'k0', 't0')
    tb = pick_input(v, s2, 'j1', 'k1', 't1')
    s2.assume(v.spec_bool("not (j0 == j1 and k0 == k1)", s2))
    assert v.use_contract(s2, CQ + "validate_no_duplicate_output_references_in_transactions",
                          transactions=v.spec_value("txs[1:]", s2))
    v.oblige(s2, v.spec_bool("t0.inputs[k0].output_reference != t1.inputs[k1].output_reference", s2),
             "C01:lemma:no-output-spent-twice-in-block", "two different input positions of the block never share a reference")
    # no spent output is one created in that same block: every spent reference is in the parent's unspent set, and
    # (A-FRESH) no output in the parent's set carries the id of a transaction of this block
    s3 = s1.fork()
    m0 = v.fresh('m0', INT)
    s3.frame.vars['m0'] = m0
    s3.assume(v.spec_bool("0 <= m0 < len(txs)", s3))
    s3.assume(v.spec_bool("implies(t0.inputs[k0].output_reference in U, t0.inputs[k0].output_reference.hash != txs[m0].hash())", s3))
    v.assumptions_used.add('A-FRESH')
    v.oblige(s3, v.spec_bool("t0.inputs[k0].output_reference.hash != txs[m0].hash()", s3),
             "C01:lemma:no-spend-of-output-created-in-same-block", "under A-FRESH, because the reference is in the parent's set")
