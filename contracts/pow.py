"""Contracts for skepticoin/pow.py and the evidence constructors (C05, C06)"""
from pyvc import *
from pyvc.spec import ContractSet

PW = ContractSet()


@PW.contract("skepticoin.pow.select_block_height", props=["C05"])
def _(c):
    c.summary("select_height")
    c.requires("current_height > 0")
    c.ensures("0 <= result < current_height", "result == G.be(input_hash[:8]) % current_height")
    c.raises_only_if("False")


@PW.contract("skepticoin.pow.select_block_slice", props=["C05"])
def _(c):
    c.summary("block_slice")
    c.requires("len(serialized_block) > 0", "length >= 0", "len(hash) == 32")
    # exactly `length` bytes, and the loop terminates (every round adds at least one byte).  That byte i is byte
    # (start + i) mod len of the block is NOT proved here (modular arithmetic with a symbolic modulus over sequence
    # slices is outside what the solvers decide); no property depends on it - validation recomputes with this function.
    c.ensures("len(result) == length")
    c.raises_only_if("False")
    lp = c.loop(0)
    lp.invariant("len(result) <= length", "0 <= start < len(serialized_block)")
    lp.measure("length - len(result)")


@PW.contract("skepticoin.consensus.construct_summary_hash", props=["C05", "C12"])
def _(c):
    c.summary("summary_hash")
    c.ensures("len(result) == 32")
    c.requires("current_height >= 0")


@PW.contract("skepticoin.consensus.construct_pow_evidence_after_scrypt", props=["C05", "C06", "C12", "C18"])
def _(c):
    c.summary("pow_evidence_after")
    c.requires("current_height >= 0", "len(summary_hash) == 32")
    c.ensures(
        "result.summary_hash == summary_hash",
        # the evidence commits to the complete transaction list: it is part of the hashed input
        "result.block_hash == blake2(summary_hash + result.chain_sample + serialize_list(transactions))",
        # the chain sample is drawn from the ancestry of the block's OWN parent (not from whatever the node's head is)
        "implies(current_height > 0, result.chain_sample == select_n_k_length_slices_from_chain(summary_hash, current_height, "
        "lambda hh: coinstate.block_by_height_by_hash[summary.previous_block_hash][hh], CHAIN_SAMPLE_COUNT, CHAIN_SAMPLE_SIZE))",
        "implies(current_height == 0, result.chain_sample == bytes(CHAIN_SAMPLE_TOTAL_SIZE))")
