"""Stub contracts for functions outside the repository or outside the executor's reach.  Every stub is an ASSUMPTION and
is listed in the evidence (trusted_base)."""
import z3
from pyvc import V, INT, BOOL, BYTES, STR, ANY, Outside
from pyvc.types import BYTES_SORT
from pyvc.engine import Raised, ExcVal
from pyvc.spec import ContractSet
from pyvc.stmts import AnyException

EX = ContractSet()


def _hash_uf(name):
    def stub(eng, st, args, kwargs):
        ts = [eng.term(a, BYTES, st) for a in args]
        f = eng.uf(name, *([BYTES_SORT] * len(ts) + [BYTES_SORT]))
        r = f(*ts)
        eng.add_func_axiom(z3.Length(r) == 32)
        eng.assumptions_used.add('A-HASH')
        yield st, V(r, BYTES)
    return stub


# A-HASH: total functions of their arguments with 32-byte results (injectivity only where a lemma says so)
EX.externals['skepticoin.hash.sha256d'] = _hash_uf('sha256d')
EX.externals['skepticoin.hash.blake2'] = _hash_uf('blake2')
EX.externals['skepticoin.hash.scrypt'] = _hash_uf('scrypt')


@EX.external('time.time')
def _time(eng, st, args, kwargs):
    # the clock: an arbitrary number per call (int() of it is taken by the callers)
    t = eng.fresh_term('now', z3.IntSort(), st)
    if eng.ghost_ref is not None and not st.bound:
        st.heap[eng.ghost_ref.loc].fields['now'] = V(t, INT)      # ghost: the last clock reading of this activation
    yield st, V(t, INT)


@EX.external('human')
def _human(eng, st, args, kwargs):
    yield st, V(eng.fresh_term('human', z3.StringSort(), st), STR)


EX.externals['skepticoin.humans.human'] = EX.externals['human']


@EX.external('skepticoin.humans.computer')
def _computer(eng, st, args, kwargs):
    (s,) = args
    if isinstance(s, str):
        from binascii import unhexlify
        yield st, unhexlify(s.encode())
        return
    f = eng.uf('unhex', z3.StringSort(), BYTES_SORT)
    from binascii import unhexlify
    from pyvc.engine import bytes_term

    def push(t):
        # a choice among string literals (an entry of a constant table selected by a symbolic key): decode each literal
        if z3.is_string_value(t):
            try:
                return bytes_term(unhexlify(t.as_string().encode()))
            except Exception:
                return f(t)
        if z3.is_app_of(t, z3.Z3_OP_ITE):
            return z3.If(t.arg(0), push(t.arg(1)), push(t.arg(2)))
        return f(t)
    yield st, V(push(eng.term(s, STR, st)), BYTES)


@EX.external('traceback.format_exc')
def _format_exc(eng, st, args, kwargs):
    eng.assumptions_used.add('A-LOG')
    yield st, V(eng.fresh_term('tb', z3.StringSort(), st), STR)


@EX.external('int.from_bytes')
def _from_bytes(eng, st, args, kwargs):
    b = args[0]
    order = args[1] if len(args) > 1 else kwargs.get('byteorder')
    if order != 'big' or kwargs.get('signed', False) is not False:
        raise Outside("int.from_bytes variant")
    yield st, eng.bytes_to_int(eng.term(b, BYTES, st), st)


def _register_immutables():
    import immutables
    from pyvc.engine import EMPTY_MAP
    from pyvc.types import MAP, to_sort, opt_sort

    def _Map(eng, st, args, kwargs):
        if not args:
            yield st, EMPTY_MAP
            return
        a = args[0]
        if isinstance(a, tuple) and a and a[0] == 'pydict':
            items = a[1]
            k0, v0 = items[0]
            kl, vl = eng.lift(k0, st), eng.lift(v0, st)
            ty = MAP(kl.ty, vl.ty)
            o = opt_sort(to_sort(vl.ty, eng.reg))
            t = z3.K(to_sort(kl.ty, eng.reg), o.none)
            for k, v in items:
                t = z3.Store(t, eng.key_term(k, kl.ty, st), o.some(eng.term(v, vl.ty, st)))
            eng.assumptions_used.add('A-IMMUT')
            yield st, V(t, ty)
            return
        raise Outside("immutables.Map(%r)" % (a,))
    EX.externals[immutables.Map] = _Map


_register_immutables()


@EX.external('decimal.Decimal')
def _decimal(eng, st, args, kwargs):
    yield st, ('opaque',)


import decimal as _dec
EX.externals[_dec.Decimal] = _decimal


# ---- ecdsa signing (A-ECDSA): a signature made with a private key verifies under the matching public key ---------------

@EX.external('ecdsa.keys.SigningKey.from_string')
def _sk_from_string(eng, st, args, kwargs):
    priv = [a for a in args if not isinstance(a, type)][0]
    eng.assumptions_used.add('A-ECDSA')
    # malformed key material: the library raises (class not modelled further)
    s_r = st.fork()
    yield s_r, Raised(ExcVal(AnyException, (), 'ecdsa.SigningKey.from_string'))
    yield st, ('extobj', 'SigningKey', eng.term(priv, BYTES, st))


@EX.external('extobj:SigningKey.sign')
def _sk_sign(eng, st, args, kwargs):
    recv, msg = args[0], args[1]
    eng.assumptions_used.add('A-ECDSA')
    sig = eng.fresh_term('ecdsa_sig', BYTES_SORT, st)
    made = eng.uf('ecdsa_signed', BYTES_SORT, BYTES_SORT, BYTES_SORT, z3.BoolSort())     # (private key, message, signature)
    st.assume(made(recv[2], eng.term(msg, BYTES, st), sig))
    st.assume(z3.Length(sig) == 64)
    yield st, V(sig, BYTES)


@EX.external('random.Random.choice')
def _random_choice(eng, st, args, kwargs):
    """random.choice(seq): some element of a non-empty sequence (IndexError on an empty one)"""
    seq = [a for a in args if not (hasattr(a, '__class__') and a.__class__.__name__ == 'Random')][-1]
    from pyvc.engine import Ref
    if isinstance(seq, Ref):
        seq = eng.lift(seq, st)
    if not (isinstance(seq, V) and seq.ty.kind == 'list'):
        raise Outside("random.choice of %r" % (seq,))
    n = z3.Length(seq.t)
    s_e = st.fork().assume(n == 0, decision=True)
    if eng.feasible(s_e):
        yield s_e, Raised(ExcVal(IndexError))
    st.assume(n > 0, decision=True)
    k = eng.fresh_term('choice', z3.IntSort(), st)
    st.assume(z3.And(k >= 0, k < n))
    yield st, V(seq.t[k], seq.ty.args[0])
