"""Contracts for skepticoin/datatypes.py, signing.py, serialization.py helpers used by the consensus contracts."""
from pyvc import *
from pyvc.spec import ContractSet

DT = ContractSet()

# ---- ids and encodings as functions of the object (their definition as sha256d of the canonical encoding is C07) ------

for q, uf in [("skepticoin.datatypes.Transaction.hash", "tx_id"),
              ("skepticoin.datatypes.Block.hash", "block_id"),
              ("skepticoin.datatypes.BlockHeader.hash", "header_id"),
              ("skepticoin.datatypes.BlockSummary.hash", "summary_id")]:
    @DT.contract(q, props=["C01", "C02", "C03", "C04", "C05"])
    def _(c, uf=uf):
        c.summary(uf)
        c.spec_facts = True
        c.ensures("len(result) == 32")
        c.no_raise()
        c.trust("id of an object is a function of the object, 32 bytes long (defined and checked under C07)")


@DT.contract("skepticoin.serialization.Serializable.serialize", props=["C01", "C02", "C05"])
def _(c):
    c.summary("enc")
    c.returns(BYTES)
    c.ensures("G.encodable_any(self)", "len(result) >= 1")
    c.trust("serialize() is a function of the object; it raises (struct.error) when a field does not fit its wire "
            "format (A-ENC; codec obligations are C07)")


@DT.contract("skepticoin.serialization.serialize_list", props=["C05"])
def _(c):
    c.summary("enc_list")
    c.returns(BYTES)
    c.no_raise()
    c.trust("serialize_list() is a function of the list (codec obligations are C07)")


@DT.contract("skepticoin.datatypes.Transaction.signable_equivalent", props=["C01", "C14"])
def _(c):
    # the message that is signed is a function of ALL references and ALL outputs, and of nothing else
    c.summary("signable")
    c.ensures("len(result.inputs) == len(self.inputs)",
              "all(result.inputs[j].output_reference == self.inputs[j].output_reference for j in range(len(self.inputs)))",
              "all(isinstance(result.inputs[j].signature, SignableEquivalent) for j in range(len(self.inputs)))",
              "result.outputs == self.outputs",
              "result.cached_hash is None")
    c.no_raise()


@DT.contract("skepticoin.signing.SECP256k1PublicKey.validate", props=["C01", "C14"])
def _(c):
    # A-ECDSA: verification is a function of (key bytes, signature object, message); it may raise on malformed keys
    c.summary("ecdsa_verifies")
    c.returns(BOOL)
    c.ensures("implies(result, isinstance(signature, SECP256k1Signature))")
    c.raises_only_if("not G.ecdsa(self, signature, message)")      # "verifies" means: returns True
    c.assume("A-ECDSA")
    c.trust("external library ecdsa: verify() is a function of its arguments; MalformedPointError may escape")
