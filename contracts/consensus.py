"""Contracts for skepticoin/consensus.py (sidecar; the repository file is not touched)."""
from pyvc import *
from pyvc.spec import ContractSet
from .ghosts import DOC_HALVING_INTERVAL, DOC_MAX_SUPPLY

CS = ContractSet()


@CS.contract("skepticoin.consensus.get_block_subsidy", props=["C16", "C02", "C12"])
def _(c):
    c.requires("height >= 0")
    c.ensures("result == G.era_subsidy(height // %d)" % DOC_HALVING_INTERVAL)
    c.raises_only_if("False")       # total on non-negative heights
    c.summary("subsidy")


@CS.contract("skepticoin.consensus.validate_sashimi_range", props=["C16", "C02"])
def _(c):
    c.ensures("0 < value <= %d" % DOC_MAX_SUPPLY)
    c.raises_only_if("not (0 < value <= %d)" % DOC_MAX_SUPPLY)


MAXS = DOC_MAX_SUPPLY

# ---------------------------------------------------------------------------------------------------- fees (C02)

@CS.contract("skepticoin.consensus.get_transaction_fee", props=["C02", "C12"])
def _(c):
    c.params(unspent_transactions=MAP(CLS('OutputReference'), CLS('Output')))
    c.summary("tx_fee")
    c.ensures("result == sum(unspent_transactions[i.output_reference].value for i in transaction.inputs)"
              " - sum(o.value for o in transaction.outputs)",
              "all(i.output_reference in unspent_transactions for i in transaction.inputs)")
    c.raises_only_if("not all(i.output_reference in unspent_transactions for i in transaction.inputs)")
    c.raises(KeyError)


@CS.contract("skepticoin.consensus.get_block_fees", props=["C02", "C12"])
def _(c):
    c.params(unspent_transaction_outs=MAP(CLS('OutputReference'), CLS('Output')))
    c.summary("block_fees")
    c.ensures("result == sum(get_transaction_fee(t, unspent_transaction_outs) for t in non_coinbase_transactions)",
              "all(all(i.output_reference in unspent_transaction_outs for i in t.inputs) for t in non_coinbase_transactions)")
    c.raises_only_if("not all(all(i.output_reference in unspent_transaction_outs for i in t.inputs) for t in non_coinbase_transactions)")
    c.raises(KeyError)


# ---------------------------------------------------------------------------------------------------- transactions

BY_ITSELF = [
    "len(transaction.inputs) > 0",
    "len(transaction.outputs) > 0",
    "len(transaction.serialize()) <= MAX_BLOCK_SIZE",
    "all(0 < o.value <= %d for o in transaction.outputs)" % MAXS,
    "0 < sum(o.value for o in transaction.outputs) <= %d" % MAXS,
    # no output is spent twice inside the transaction
    "all(all(transaction.inputs[a].output_reference != transaction.inputs[b].output_reference"
    " for b in range(a)) for a in range(len(transaction.inputs)))",
    # every input refers to a real output and carries a real signature object
    "all(not (i.output_reference.hash == ZERO32 and i.output_reference.index == 0) for i in transaction.inputs)",
    "all(isinstance(i.signature, SECP256k1Signature) for i in transaction.inputs)",
]


@CS.contract("skepticoin.consensus.validate_non_coinbase_transaction_by_itself", props=["C01", "C02", "C13"])
def _(c):
    c.local(output_references=SET(CLS('OutputReference')))
    c.predicate("tx_by_itself", ["transaction"])
    c.ensures(*BY_ITSELF)
    # one-sided on purpose: "rejects only if" would need an exact characterisation of the seen-set (an exists-invariant);
    # the properties only say "accepted only if", and callers use the predicate tx_by_itself for the other direction
    c.loop(0).invariant(
        "total_transaction_output_value == sum(o.value for o in transaction.outputs[:i])",
        "all(0 < o.value <= %d for o in transaction.outputs[:i])" % MAXS)
    c.loop(1).invariant(
        "all(transaction.inputs[j].output_reference in output_references for j in range(i))",
        "all(all(transaction.inputs[a].output_reference != transaction.inputs[b].output_reference"
        " for b in range(a)) for a in range(i))")
    c.loop(2).invariant(
        "all(not (inp.output_reference.hash == ZERO32 and inp.output_reference.index == 0) for inp in transaction.inputs[:i])",
        "all(isinstance(inp.signature, SECP256k1Signature) for inp in transaction.inputs[:i])")


@CS.contract("skepticoin.consensus.validate_signature_for_spend", props=["C01"])
def _(c):
    c.ensures("G.spend_verifies(input, previous_output, transaction)")
    c.raises_only_if("not G.spend_verifies(input, previous_output, transaction)")


IN_STATE = [
    "all(i.output_reference in U for i in transaction.inputs)",
    "all(G.spend_verifies(i, U[i.output_reference], transaction) for i in transaction.inputs)",
    "sum(o.value for o in transaction.outputs) <= sum(U[i.output_reference].value for i in transaction.inputs)",
]


@CS.contract("skepticoin.consensus.validate_non_coinbase_transaction_in_coinstate", props=["C01", "C02", "C13"])
def _(c):
    c.let(U="coinstate.unspent_transaction_outs_by_hash[at_hash]")
    c.predicate("tx_in_state", ["transaction", "at_hash", "coinstate"])
    c.ensures("at_hash in coinstate.unspent_transaction_outs_by_hash", *IN_STATE)
    c.raises_only_if("not (at_hash in coinstate.unspent_transaction_outs_by_hash and "
                     + " and ".join("(%s)" % x for x in IN_STATE) + ")")
    c.loop(0).invariant(
        "total_input_value == sum(U[inp.output_reference].value for inp in transaction.inputs[:i])",
        "all(inp.output_reference in U for inp in transaction.inputs[:i])",
        "all(G.spend_verifies(inp, U[inp.output_reference], transaction) for inp in transaction.inputs[:i])")
