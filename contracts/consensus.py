"""Contracts for skepticoin/consensus.py (sidecar; the repository file is not touched)."""
from pyvc import *
from pyvc.spec import ContractSet
from .ghosts import DOC_HALVING_INTERVAL, DOC_MAX_SUPPLY

CS = ContractSet()


@CS.contract("skepticoin.consensus.get_block_subsidy", props=["C16", "C02", "C12"])
def _(c):
    c.requires("height >= 0")
    c.ensures("result == G.era_subsidy(height // %d)" % DOC_HALVING_INTERVAL)
    c.raises_only_if("False")       # total on non-negative heights
    c.summary("subsidy")


@CS.contract("skepticoin.consensus.validate_sashimi_range", props=["C16", "C02"])
def _(c):
    c.ensures("0 < value <= %d" % DOC_MAX_SUPPLY)
    c.raises_only_if("not (0 < value <= %d)" % DOC_MAX_SUPPLY)
