"""Contracts for skepticoin/consensus.py (sidecar; the repository file is not touched)."""
from pyvc import *
from pyvc.spec import ContractSet
from .ghosts import DOC_HALVING_INTERVAL, DOC_MAX_SUPPLY

CS = ContractSet()


def _vte():
    import skepticoin.consensus as c
    from pyvc.stmts import AnyException
    return [(c.ValidateTransactionError, None), (AnyException, None)]


# callers see two kinds of rejection: the validator's own ValidateTransactionError, or any other exception
RAISES_VTE_OR_OTHER = _vte()


@CS.contract("skepticoin.consensus.get_block_subsidy", props=["C16", "C02", "C12"])
def _(c):
    c.requires("height >= 0")
    c.ensures("result == G.era_subsidy(height // %d)" % DOC_HALVING_INTERVAL)
    c.raises_only_if("False")       # total on non-negative heights
    c.summary("subsidy")


@CS.contract("skepticoin.consensus.validate_sashimi_range", props=["C16", "C02"])
def _(c):
    c.ensures("0 < value <= %d" % DOC_MAX_SUPPLY)
    c.raises_only_if("not (0 < value <= %d)" % DOC_MAX_SUPPLY)


MAXS = DOC_MAX_SUPPLY

# ---------------------------------------------------------------------------------------------------- fees (C02)

@CS.contract("skepticoin.consensus.get_transaction_fee", props=["C02", "C12"])
def _(c):
    c.params(unspent_transactions=MAP(CLS('OutputReference'), CLS('Output')))
    c.summary("tx_fee")
    c.predicate("tx_fee_ok", ["transaction", "unspent_transactions"])
    c.ensures("result == sum(unspent_transactions[i.output_reference].value for i in transaction.inputs)"
              " - sum(o.value for o in transaction.outputs)",
              "all(i.output_reference in unspent_transactions for i in transaction.inputs)")
    c.raises_only_if("not all(i.output_reference in unspent_transactions for i in transaction.inputs)")
    c.raises(KeyError)


@CS.contract("skepticoin.consensus.get_block_fees", props=["C02", "C12"])
def _(c):
    c.params(unspent_transaction_outs=MAP(CLS('OutputReference'), CLS('Output')))
    c.summary("block_fees")
    c.predicate("block_fees_ok", ["non_coinbase_transactions", "unspent_transaction_outs"])
    c.ensures("result == sum(get_transaction_fee(t, unspent_transaction_outs) for t in non_coinbase_transactions)",
              "all(all(i.output_reference in unspent_transaction_outs for i in t.inputs) for t in non_coinbase_transactions)")
    c.raises_only_if("not all(all(i.output_reference in unspent_transaction_outs for i in t.inputs) for t in non_coinbase_transactions)")
    c.raises(KeyError)


# ---------------------------------------------------------------------------------------------------- transactions

BY_ITSELF = [
    "len(transaction.inputs) > 0",
    "len(transaction.outputs) > 0",
    "len(transaction.serialize()) <= MAX_BLOCK_SIZE",
    "all(0 < o.value <= %d for o in transaction.outputs)" % MAXS,
    "0 < sum(o.value for o in transaction.outputs) <= %d" % MAXS,
    # no output is spent twice inside the transaction
    "all(all(transaction.inputs[a].output_reference != transaction.inputs[b].output_reference"
    " for b in range(a)) for a in range(len(transaction.inputs)))",
    # every input refers to a real output and carries a real signature object
    "all(not (i.output_reference.hash == ZERO32 and i.output_reference.index == 0) for i in transaction.inputs)",
    "all(isinstance(i.signature, SECP256k1Signature) for i in transaction.inputs)",
]


@CS.contract("skepticoin.consensus.validate_non_coinbase_transaction_by_itself", props=["C01", "C02", "C13"])
def _(c):
    c.local(output_references=SET(CLS('OutputReference')))
    c.predicate("tx_by_itself", ["transaction"])
    c.raise_cases = RAISES_VTE_OR_OTHER
    c.ensures(*BY_ITSELF)
    # one-sided on purpose: "rejects only if" would need an exact characterisation of the seen-set (an exists-invariant);
    # the properties only say "accepted only if", and callers use the predicate tx_by_itself for the other direction
    c.loop(0).invariant(
        "total_transaction_output_value == sum(o.value for o in transaction.outputs[:i])",
        "all(0 < o.value <= %d for o in transaction.outputs[:i])" % MAXS)
    c.loop(1).invariant(
        "all(transaction.inputs[j].output_reference in output_references for j in range(i))",
        "all(all(transaction.inputs[a].output_reference != transaction.inputs[b].output_reference"
        " for b in range(a)) for a in range(i))")
    c.loop(2).invariant(
        "all(not (inp.output_reference.hash == ZERO32 and inp.output_reference.index == 0) for inp in transaction.inputs[:i])",
        "all(isinstance(inp.signature, SECP256k1Signature) for inp in transaction.inputs[:i])")


@CS.contract("skepticoin.consensus.validate_signature_for_spend", props=["C01"])
def _(c):
    c.ensures("G.spend_verifies(input, previous_output, transaction)")
    # one-sided: it also raises when the signable form cannot be encoded (a field outside its wire range)


IN_STATE = [
    "all(i.output_reference in U for i in transaction.inputs)",
    "all(G.spend_verifies(i, U[i.output_reference], transaction) for i in transaction.inputs)",
    "sum(o.value for o in transaction.outputs) <= sum(U[i.output_reference].value for i in transaction.inputs)",
]


@CS.contract("skepticoin.consensus.validate_non_coinbase_transaction_in_coinstate", props=["C01", "C02", "C13"])
def _(c):
    c.let(U="coinstate.unspent_transaction_outs_by_hash[at_hash]")
    c.predicate("tx_in_state", ["transaction", "at_hash", "coinstate"])
    c.raise_cases = RAISES_VTE_OR_OTHER
    c.ensures("at_hash in coinstate.unspent_transaction_outs_by_hash", *IN_STATE)
    # one-sided ("accepted only if"); the other direction is carried by the predicate tx_in_state where callers need it
    c.loop(0).invariant(
        "total_input_value == sum(U[inp.output_reference].value for inp in transaction.inputs[:i])",
        "all(inp.output_reference in U for inp in transaction.inputs[:i])",
        "all(G.spend_verifies(inp, U[inp.output_reference], transaction) for inp in transaction.inputs[:i])")


COINBASE_SHAPE = [
    "len(transaction.inputs) == 1",
    "transaction.inputs[0].output_reference.hash == ZERO32 and transaction.inputs[0].output_reference.index == 0",
    "isinstance(transaction.inputs[0].signature, CoinbaseData)",
    "len(transaction.inputs[0].signature.signature) <= 200",
]


@CS.contract("skepticoin.consensus.validate_coinbase_transaction_by_itself", props=["C01", "C02", "C05"])
def _(c):
    c.predicate("coinbase_by_itself", ["transaction"])
    c.ensures(*COINBASE_SHAPE)
    c.raises_only_if("not (" + " and ".join("(%s)" % x for x in COINBASE_SHAPE) + ")")


@CS.contract("skepticoin.consensus.validate_no_duplicate_transactions", props=["C01"])
def _(c):
    c.local(seen_transactions=SET(BYTES))
    c.predicate("no_dup_txs", ["transactions"])
    c.ensures("all(all(transactions[a].hash() != transactions[b].hash() for b in range(a)) for a in range(len(transactions)))")
    c.loop(0).invariant(
        "all(transactions[j].hash() in seen_transactions for j in range(i))",
        "all(all(transactions[a].hash() != transactions[b].hash() for b in range(a)) for a in range(i))")


DISTINCT_REFS = (
    "all(all(all(all((a2 == a and b2 == b) or transactions[a].inputs[b].output_reference != transactions[a2].inputs[b2].output_reference"
    " for b2 in range(len(transactions[a2].inputs))) for a2 in range(%(A)s))"
    " for b in range(len(transactions[a].inputs))) for a in range(%(A)s))")


@CS.contract("skepticoin.consensus.validate_no_duplicate_output_references_in_transactions", props=["C01", "C13"])
def _(c):
    c.local(seen_output_references=SET(CLS('OutputReference')))
    c.predicate("no_dup_refs", ["transactions"])
    c.raise_cases = RAISES_VTE_OR_OTHER
    # no output is spent twice inside the list (across and within transactions)
    c.ensures(DISTINCT_REFS % {'A': 'len(transactions)'})
    outer = c.loop(0).index('a0')
    outer.invariant(
        "all(all(transactions[a].inputs[b].output_reference in seen_output_references"
        " for b in range(len(transactions[a].inputs))) for a in range(a0))",
        DISTINCT_REFS % {'A': 'a0'})
    inner = c.loop(1).index('b0')
    inner.invariant(
        "all(all(transactions[a].inputs[b].output_reference in seen_output_references"
        " for b in range(len(transactions[a].inputs))) for a in range(a0))",
        DISTINCT_REFS % {'A': 'a0'},
        "all(transactions[a0].inputs[b].output_reference in seen_output_references for b in range(b0))",
        "all(all(b == b2 or transactions[a0].inputs[b].output_reference != transactions[a0].inputs[b2].output_reference"
        " for b2 in range(b0)) for b in range(b0))",
        "all(all(all(transactions[a0].inputs[b].output_reference != transactions[a].inputs[b2].output_reference"
        " for b2 in range(len(transactions[a].inputs))) for a in range(a0)) for b in range(b0))")


# ---------------------------------------------------------------------------------------------------- header rules (C05)

@CS.contract("skepticoin.consensus.validate_proof_of_work", props=["C05"])
def _(c):
    c.predicate("pow_ok", ["hash", "target"])
    c.ensures("implies(len(hash) == len(target), G.be(hash) < G.be(target))")
    c.raises_only_if("implies(len(hash) == len(target), G.be(hash) >= G.be(target))")
    c.assume("A-LEX")


@CS.contract("skepticoin.consensus.validate_block_header_by_itself", props=["C05"])
def _(c):
    c.predicate("header_ok", ["block_header", "current_timestamp"])
    c.ensures("implies(len(block_header.summary.target) == 32, G.be(block_header.hash()) < G.be(block_header.summary.target))",
              "block_header.summary.timestamp <= current_timestamp + 30")
    c.raises_only_if("len(block_header.summary.target) != 32 or G.be(block_header.hash()) >= G.be(block_header.summary.target)"
                     " or block_header.summary.timestamp > current_timestamp + 30")


RETARGET_SPAN = 1_209_600       # statement: "the previous target times elapsed seconds over 1,209,600"
RETARGET_PERIOD = 10_080        # statement: "a 10,080-block period"


@CS.contract("skepticoin.consensus.calculate_new_target", props=["C05"])
def _(c):
    c.summary("new_target")
    c.let(exact="G.be(previous_target) * actual_time_passed // %d" % RETARGET_SPAN)
    c.ensures("result == G.to_be32(min(exact, 2 ** 256 - 1))", "len(result) == 32", "exact >= 0")
    c.raises_only_if("exact < 0")
    c.raises(OverflowError)


@CS.contract("skepticoin.consensus.calc_target", props=["C05"])
def _(c):
    c.params(previous_block=CLS('Block'))
    c.summary("calc_target")
    c.let(idx="coinstate.block_by_height_by_hash[previous_block.hash()]")
    # unchanged inside a period; at a boundary computed from the block's OWN ancestors: the index stored at its parent
    c.ensures("implies(height %% %d != 0, result == previous_block.target)" % RETARGET_PERIOD,
              "implies(height %% %d == 0, previous_block.hash() in coinstate.block_by_height_by_hash"
              " and (height - %d) in idx"
              " and result == calculate_new_target(previous_block.target, current_timestamp - idx[height - %d].timestamp))"
              % (RETARGET_PERIOD, RETARGET_PERIOD, RETARGET_PERIOD))


@CS.contract("skepticoin.consensus.validate_block_summary_in_coinstate", props=["C05"])
def _(c):
    c.predicate("summary_in_state", ["block_summary", "coinstate"])
    c.let(parent="coinstate.block_by_hash[block_summary.previous_block_hash]")
    phi = ["block_summary.previous_block_hash in coinstate.block_by_hash",
           "block_summary.timestamp > parent.timestamp",
           "block_summary.target == calc_target(coinstate, parent.height + 1, block_summary.timestamp, parent)"]
    c.ensures(*phi)


# ---------------------------------------------------------------------------------------------------- blocks

@CS.contract("skepticoin.consensus.calc_merkle_root_hash", props=["C17"])
def _(c):
    c.summary("merkle_of")
    c.returns(BYTES)
    c.trust("the commitment is a function of the transaction list here; get_merkle_root against its specification is C17")


@CS.contract("skepticoin.consensus.validate_block_by_itself", props=["C01", "C02", "C05"])
def _(c):
    c.predicate("ok_itself", ["block", "current_timestamp"])
    c.let(txs="block.transactions")
    c.ensures(
        # header rules that need no chain
        "G.header_ok(block.header, current_timestamp)",
        "len(txs) >= 1",
        "len(block.serialize()) <= MAX_BLOCK_SIZE",
        "G.encodable(block)",
        # the reward transaction has the reward shape and states the block's own height
        "G.coinbase_by_itself(txs[0])",
        "txs[0].inputs[0].signature.height == block.header.summary.height",
        "0 <= block.header.summary.height <= 0xFFFFFFFF",
        # every other transaction passes the stand-alone rules
        "all(G.tx_by_itself(txs[1 + j]) for j in range(len(txs) - 1))",
        "G.no_dup_txs(txs[1:])",
        # no output is spent twice inside the block
        "G.no_dup_refs(txs[1:])",
        "block.header.summary.merkle_root_hash == calc_merkle_root_hash(txs)")
    c.loop(0).invariant("all(G.tx_by_itself(txs[1 + j]) for j in range(i))")


@CS.contract("skepticoin.consensus.validate_coinbase_transaction_in_coinstate", props=["C02", "C05"])
def _(c):
    c.predicate("coinbase_in_state", ["transaction", "block", "coinstate"])
    c.let(prev="block.header.summary.previous_block_hash")
    c.ensures(
        "prev in coinstate.block_by_hash",
        "prev in coinstate.unspent_transaction_outs_by_hash",
        # height is the parent's plus one
        "block.header.summary.height == coinstate.block_by_hash[prev].header.summary.height + 1",
        # reward <= subsidy(height) + fees, fees taken against the PARENT's unspent set
        "sum(o.value for o in transaction.outputs) <= "
        "get_block_fees(block.transactions[1:], coinstate.unspent_transaction_outs_by_hash[prev])"
        " + get_block_subsidy(block.header.summary.height)",
        "all(all(i.output_reference in coinstate.unspent_transaction_outs_by_hash[prev] for i in t.inputs)"
        " for t in block.transactions[1:])")
    c.requires("block.header.summary.height >= 0")


@CS.contract("skepticoin.consensus.construct_pow_evidence", props=["C05"])
def _(c):
    c.summary("pow_evidence")
    c.requires("current_height >= 0")
    # recomputation = the constructor the miner uses, applied to the scrypt of the summary
    c.ensures("same(result, construct_pow_evidence_after_scrypt(construct_summary_hash(summary, current_height),"
              " coinstate, summary, current_height, transactions))")


@CS.contract("skepticoin.consensus.validate_block_in_coinstate", props=["C01", "C02", "C05", "C18"])
def _(c):
    c.predicate("ok_in_state", ["block", "coinstate"])
    c.let(h="block.header.summary.height", prev="block.header.summary.previous_block_hash", txs="block.transactions")
    c.requires("h >= 0")
    full = "h > %d" % 163000
    c.ensures(
        # ---- full validation (above the checkpoint horizon)
        "implies(%s, G.summary_in_state(block.header.summary, coinstate))" % full,
        "implies(%s, block.header.pow_evidence.summary_hash == construct_pow_evidence(coinstate, block.header.summary, h, txs).summary_hash"
        " and block.header.pow_evidence.chain_sample == construct_pow_evidence(coinstate, block.header.summary, h, txs).chain_sample"
        " and block.header.pow_evidence.block_hash == construct_pow_evidence(coinstate, block.header.summary, h, txs).block_hash)" % full,
        "implies(%s, len(txs) >= 1 and G.coinbase_in_state(txs[0], block, coinstate))" % full,
        "implies(%s, all(G.tx_in_state(txs[1 + j], prev, coinstate) for j in range(len(txs) - 1)))" % full,
        # ---- below the horizon (C18): at a checkpointed height only the checkpointed id is accepted
        "implies(h <= 163000 and G.is_checkpoint(h), block.hash() == G.checkpoint(h))")
    c.loop(0).invariant("all(G.tx_in_state(txs[1 + j], prev, coinstate) for j in range(i))")


# ---------------------------------------------------------------------------------------------------- construction (C05, C12)

@CS.contract("skepticoin.consensus.construct_coinbase_transaction", props=["C12", "C05"])
def _(c):
    c.summary("coinbase_tx")
    c.params(unspent_transaction_outs=MAP(CLS('OutputReference'), CLS('Output')), miner_public_key=CLS('PublicKey'))
    c.predicate("coinbase_built", ["height", "other_transactions", "unspent_transaction_outs", "signature", "miner_public_key"])
    c.ensures(
        "len(result.inputs) == 1 and len(result.outputs) == 1 and result.cached_hash is None",
        "result.inputs[0].output_reference.hash == ZERO32 and result.inputs[0].output_reference.index == 0",
        "isinstance(result.inputs[0].signature, CoinbaseData) and result.inputs[0].signature.height == height"
        " and result.inputs[0].signature.signature == signature",
        # the reward pays exactly subsidy(height) + fees of the included transactions, to the miner's key
        "result.outputs[0].value == get_block_subsidy(height) + get_block_fees(other_transactions, unspent_transaction_outs)",
        "same(result.outputs[0].public_key, miner_public_key)",
        "0 <= height <= 0xFFFFFFFF and len(signature) <= 256")
    c.requires("height >= 0")


@CS.contract("skepticoin.consensus.construct_minable_summary", props=["C12", "C05"])
def _(c):
    c.summary("minable_summary")
    c.predicate("summary_built", ["coinstate", "transactions", "current_timestamp", "nonce"])
    c.requires("coinstate.current_chain_hash is not None")
    c.let(head="coinstate.block_by_hash[coinstate.current_chain_hash]")
    c.ensures(
        "coinstate.current_chain_hash in coinstate.block_by_hash",
        "result.height == head.header.summary.height + 1",
        "result.previous_block_hash == coinstate.current_chain_hash",
        "result.merkle_root_hash == calc_merkle_root_hash(transactions)",
        "result.timestamp == current_timestamp and result.nonce == nonce",
        # the target is computed exactly as the validator recomputes it: same function, same arguments
        "result.target == calc_target(coinstate, head.header.summary.height + 1, current_timestamp, head)")


@CS.contract("skepticoin.consensus.construct_block_pow_evidence_input", props=["C12", "C05"])
def _(c):
    c.params(miner_public_key=CLS('PublicKey'))
    c.predicate("candidate_built", ["coinstate", "non_coinbase_transactions", "miner_public_key", "current_timestamp", "random_data", "nonce"])
    c.summary("candidate")
    c.returns(TUPLE(CLS('BlockSummary'), INT, LIST(CLS('Transaction'))))
    c.let(cur="coinstate.current_chain_hash", head="coinstate.block_by_hash[coinstate.current_chain_hash]")
    c.requires("coinstate.current_chain_hash is not None and len(coinstate.current_chain_hash) == 32",
               "head.header.summary.height >= 0")
    c.ensures(
        "cur in coinstate.block_by_hash and cur in coinstate.unspent_transaction_outs_by_hash",
        "result[1] == head.header.summary.height + 1",
        "len(result[2]) == 1 + len(non_coinbase_transactions) and same(result[2][1:], non_coinbase_transactions)",
        "G.coinbase_built(result[1], non_coinbase_transactions, coinstate.unspent_transaction_outs_by_hash[cur], random_data, miner_public_key)",
        "same(result[2][0], construct_coinbase_transaction(result[1], non_coinbase_transactions,"
        " coinstate.unspent_transaction_outs_by_hash[cur], random_data, miner_public_key))",
        "G.summary_built(coinstate, result[2], current_timestamp, nonce)",
        "same(result[0], construct_minable_summary(coinstate, result[2], current_timestamp, nonce))",
        # header fields of the candidate: what the validator will compare against
        "result[0].height == result[1] and result[0].previous_block_hash == cur",
        "result[0].timestamp == current_timestamp and result[0].nonce == nonce",
        "result[0].merkle_root_hash == calc_merkle_root_hash(result[2])",
        "result[0].target == calc_target(coinstate, result[1], current_timestamp, head)",
        # the reward transaction of the candidate
        "len(result[2][0].outputs) == 1 and result[2][0].outputs[0].value == get_block_subsidy(result[1])"
        " + get_block_fees(non_coinbase_transactions, coinstate.unspent_transaction_outs_by_hash[cur])",
        "same(result[2][0].outputs[0].public_key, miner_public_key)",
        "isinstance(result[2][0].inputs[0].signature, CoinbaseData) and result[2][0].inputs[0].signature.height == result[1]")
