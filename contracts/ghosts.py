"""Ghost functions usable in contract text as G.<name>(...).  Each takes (engine, state, *values) and returns a value.
Definitions are independent of the code under verification: they come from the property statements."""
import z3
from pyvc import V, INT, BOOL, BYTES, LIST, MAP, CLS, Outside
from pyvc.spec import ContractSet

GH = ContractSet()

# ---- C16: the documented monetary schedule -------------------------------------------------------------------------
COIN = 100_000_000                      # docs/params.md: 1 coin = 10^8 sashimi
DOC_INITIAL_SUBSIDY_COIN = 10           # statement: "The block subsidy is 10 coin"
DOC_HALVING_INTERVAL = 1_050_000        # statement: "halved ... every 1,050,000 blocks"
DOC_MAX_SUPPLY = 2_099_999_986_350_000  # statement: "exactly 2,099,999,986,350,000 sashimi"


def era_table():
    """subsidy per era by iterated integer halving, until exhausted"""
    t = []
    s = DOC_INITIAL_SUBSIDY_COIN * COIN
    while s > 0:
        t.append(s)
        s //= 2
    return t


@GH.ghost('era_subsidy')
def era_subsidy(eng, st, k):
    """subsidy of era k >= 0 (the statement's '10 coin halved by integer division k times'); 0 once exhausted"""
    tab = era_table()
    kt = eng.term(k, INT)
    r = z3.IntVal(0)
    for j in range(len(tab) - 1, -1, -1):
        r = z3.If(kt == j, z3.IntVal(tab[j]), r)
    return V(r, INT)


# ---- C01: what a verifying spend is ---------------------------------------------------------------------------------

@GH.ghost('spend_verifies')
def spend_verifies(eng, st, inp, prev_out, tx):
    """the input carries a real signature object that the spent output's key accepts over the transaction's
    signable form, i.e. over enc(signable(tx)) where signable keeps every reference and every output"""
    import skepticoin.datatypes as d
    import skepticoin.signing as sg
    from pyvc.types import to_sort, opt_sort, BYTES_SORT
    reg = eng.reg
    Inp = reg.classes['Input']
    Out = reg.classes['Output']
    Sig = reg.classes['SECP256k1Signature']
    TxS = to_sort(CLS('Transaction'), reg)
    SigS = to_sort(CLS('Signature'), reg)
    PkS = to_sort(CLS('PublicKey'), reg)
    o = opt_sort(SigS)
    sig_opt = Inp.acc['signature'](inp.t)
    sig = o.val(sig_opt)
    signable = eng.uf('signable', TxS, TxS)
    enc = eng.uf('enc', TxS, BYTES_SORT)
    ver = eng.uf('ecdsa_verifies', PkS, SigS, BYTES_SORT, z3.BoolSort())
    pk = Out.acc['public_key'](prev_out.t)
    return V(z3.And(o.is_some(sig_opt), Sig.recog(sig), ver(pk, sig, enc(signable(tx.t)))), BOOL)


@GH.ghost('ecdsa')
def ecdsa(eng, st, pk, sig, msg):
    """the verification summary of SECP256k1PublicKey.validate as a predicate (A-ECDSA)"""
    from pyvc.types import to_sort, BYTES_SORT
    PkS = to_sort(CLS('PublicKey'), eng.reg)
    SigS = to_sort(CLS('Signature'), eng.reg)
    ver = eng.uf('ecdsa_verifies', PkS, SigS, BYTES_SORT, z3.BoolSort())
    return V(ver(eng.term(pk, None, st), eng.term(sig, CLS('Signature'), st), eng.term(msg, BYTES, st)), BOOL)


# ---- C05: numeric reading of 32-byte strings --------------------------------------------------------------------------

@GH.ghost('be')
def be(eng, st, b):
    """big-endian value of a byte string (the same function int.from_bytes(..., 'big') and struct.unpack compute)"""
    return eng.bytes_to_int(eng.term(b, BYTES, st), st)


@GH.ghost('to_be32')
def to_be32(eng, st, x):
    return eng.int_to_bytes(eng.term(x, INT), 32, st)


@GH.ghost('to_be8')
def to_be8(eng, st, x):
    return eng.int_to_bytes(eng.term(x, INT), 8, st)


# ---- "the validator returns normally" predicates (defined by Contract.predicate; see pyvc.verify.predicate_term) -------

def _pred(name, tys):
    def g(eng, st, *args):
        from pyvc.types import to_sort
        ts = [eng.term(a, t, st) for a, t in zip(args, tys)]
        f = eng.uf('pred_' + name, *([t.sort() for t in ts] + [z3.BoolSort()]))
        return V(f(*ts), BOOL)
    GH.ghosts[name] = g


_pred('tx_by_itself', [CLS('Transaction')])
_pred('tx_in_state', [CLS('Transaction'), BYTES, CLS('CoinState')])
_pred('coinbase_by_itself', [CLS('Transaction')])
_pred('coinbase_in_state', [CLS('Transaction'), CLS('Block'), CLS('CoinState')])
_pred('no_dup_txs', [LIST(CLS('Transaction'))])
_pred('no_dup_refs', [LIST(CLS('Transaction'))])
_pred('header_ok', [CLS('BlockHeader'), INT])
_pred('pow_ok', [BYTES, BYTES])
_pred('ok_itself', [CLS('Block'), INT])
_pred('ok_in_state', [CLS('Block'), CLS('CoinState')])
_pred('summary_in_state', [CLS('BlockSummary'), CLS('CoinState')])
_pred('applies', [CLS('CoinState'), CLS('Block')])


# ---- C02 / C03: unspent sets -------------------------------------------------------------------------------------------

def _utxo_sorts(eng):
    from pyvc.types import to_sort, opt_sort, MAP
    reg = eng.reg
    RefS = to_sort(CLS('OutputReference'), reg)
    OutS = to_sort(CLS('Output'), reg)
    US = to_sort(MAP(CLS('OutputReference'), CLS('Output')), reg)
    return RefS, OutS, US, opt_sort(OutS)


@GH.ghost('spent_in')
def spent_in(eng, st, r, ins, i):
    """r is the reference of one of the first i inputs of the list `ins` (definition by prefix recursion)"""
    from pyvc.types import to_sort
    RefS, OutS, US, o = _utxo_sorts(eng)
    InS = to_sort(LIST(CLS('Input')), eng.reg)
    f = eng.uf('spent_in', RefS, InS, z3.IntSort(), z3.BoolSort())
    Inp = eng.reg.classes['Input']
    if 'spent_in' not in eng._ghost_defs:
        eng._ghost_defs.add('spent_in')
        rr = z3.Const('si!r', RefS)
        ss = z3.Const('si!s', InS)
        kk = z3.Int('si!k')
        eng.axioms.append(z3.ForAll([rr, ss], z3.Not(f(rr, ss, 0)), patterns=[f(rr, ss, 0)]))
        eng.axioms.append(z3.ForAll([rr, ss, kk], z3.Implies(z3.And(kk >= 0, kk < z3.Length(ss)),
                                                             f(rr, ss, kk + 1) == z3.Or(f(rr, ss, kk), Inp.acc['output_reference'](ss[kk]) == rr)),
                                    patterns=[f(rr, ss, kk + 1)]))
        # witness form (proved by induction over the prefix length in lemma ghost.spent_in): if r is spent by the first
        # n inputs then one of them, at position wit < n, carries it
        w = eng.uf('spent_wit', RefS, InS, z3.IntSort(), z3.IntSort())
        eng.axioms.append(z3.ForAll([rr, ss, kk], z3.Implies(
            z3.And(kk >= 0, kk <= z3.Length(ss), f(rr, ss, kk)),
            z3.And(0 <= w(rr, ss, kk), w(rr, ss, kk) < kk, Inp.acc['output_reference'](ss[w(rr, ss, kk)]) == rr)),
            patterns=[f(rr, ss, kk)]))
    rt, st_, it = eng.term(r, CLS('OutputReference'), st), eng.term(ins, LIST(CLS('Input')), st), eng.term(i, INT, st)
    # unfold once on the occurring term (ground instance of the definition)
    if not st.bound:
        eng.add_func_axiom(z3.Not(f(rt, st_, z3.IntVal(0))))
        eng.add_func_axiom(z3.Implies(z3.And(it - 1 >= 0, it - 1 < z3.Length(st_)),
                                      f(rt, st_, it) == z3.Or(f(rt, st_, it - 1), Inp.acc['output_reference'](st_[it - 1]) == rt)))
    return V(f(rt, st_, it), BOOL)


@GH.ghost('total')
def total(eng, st, m):
    """total value of a finite unspent set.  A-MAPSUM: update laws of a sum over a finite map, instantiated on the
    update chain of the occurring term"""
    RefS, OutS, US, o = _utxo_sorts(eng)
    Out = eng.reg.classes['Output']
    tot = eng.uf('total', US, z3.IntSort())
    mt = eng.term(m, MAP(CLS('OutputReference'), CLS('Output')), st)
    eng.assumptions_used.add('A-MAPSUM')

    def old_value(base, key):
        cell = z3.Select(base, key)
        return z3.If(o.is_some(cell), Out.acc['value'](o.val(cell)), 0)
    t = mt
    depth = 0
    while z3.is_app(t) and t.decl().kind() == z3.Z3_OP_STORE and depth < 8:
        base, key, val = t.arg(0), t.arg(1), t.arg(2)
        new_value = z3.If(o.is_some(val), Out.acc['value'](o.val(val)), 0)
        eng.add_func_axiom(tot(t) == tot(base) - old_value(base, key) + new_value)
        t = base
        depth += 1
    if z3.is_app(t) and t.decl().kind() == z3.Z3_OP_CONST_ARRAY:
        eng.add_func_axiom(tot(t) == 0)
    return V(tot(mt), INT)


@GH.ghost('uto_prefix')
def uto_prefix(eng, st, U, txs, i):
    """unspent set after the reward transaction and the first i other transactions of the list have been applied:
    prefix recursion over the summary function of uto_apply_transaction"""
    from pyvc.types import to_sort
    RefS, OutS, US, o = _utxo_sorts(eng)
    TxS = to_sort(CLS('Transaction'), eng.reg)
    TL = to_sort(LIST(CLS('Transaction')), eng.reg)
    f = eng.uf('uto_prefix', US, TL, z3.IntSort(), US)
    step = eng.uf('uto_tx', US, TxS, z3.BoolSort(), US)
    if 'uto_prefix' not in eng._ghost_defs:
        eng._ghost_defs.add('uto_prefix')
        uu = z3.Const('up!u', US)
        tt = z3.Const('up!t', TL)
        kk = z3.Int('up!k')
        eng.axioms.append(z3.ForAll([uu, tt], f(uu, tt, 0) == step(uu, tt[0], z3.BoolVal(True)), patterns=[f(uu, tt, 0)]))
        eng.axioms.append(z3.ForAll([uu, tt, kk], z3.Implies(kk >= 0, f(uu, tt, kk + 1) == step(f(uu, tt, kk), tt[1 + kk], z3.BoolVal(False))),
                                    patterns=[f(uu, tt, kk + 1)]))
    ut, tt_, it = eng.term(U, MAP(CLS('OutputReference'), CLS('Output')), st), eng.term(txs, LIST(CLS('Transaction')), st), eng.term(i, INT, st)
    if not st.bound:
        eng.add_func_axiom(f(ut, tt_, z3.IntVal(0)) == step(ut, tt_[0], z3.BoolVal(True)))
        eng.add_func_axiom(z3.Implies(it - 1 >= 0, f(ut, tt_, it) == step(f(ut, tt_, it - 1), tt_[1 + (it - 1)], z3.BoolVal(False))))
    return V(f(ut, tt_, it), MAP(CLS('OutputReference'), CLS('Output')))


_pred('uto_tx_ok', [MAP(CLS('OutputReference'), CLS('Output')), CLS('Transaction'), BOOL])
_pred('uto_block_ok', [MAP(CLS('OutputReference'), CLS('Output')), CLS('Block')])
_pred('tx_fee_ok', [CLS('Transaction'), MAP(CLS('OutputReference'), CLS('Output'))])


@GH.ghost('spent_in_witness')
def spent_in_witness(eng, st, r, ins, n):
    """instance of the witness form of spent_in (global axiom, induction proved by lemma ghost.spent_in)"""
    from pyvc.types import to_sort
    RefS, OutS, US, o = _utxo_sorts(eng)
    InS = to_sort(LIST(CLS('Input')), eng.reg)
    Inp = eng.reg.classes['Input']
    spent_in(eng, st, r, ins, n)
    f = eng.uf('spent_in', RefS, InS, z3.IntSort(), z3.BoolSort())
    w = eng.uf('spent_wit', RefS, InS, z3.IntSort(), z3.IntSort())
    rt, st_, nt = eng.term(r, CLS('OutputReference'), st), eng.term(ins, LIST(CLS('Input')), st), eng.term(n, INT, st)
    return V(z3.Implies(z3.And(nt >= 0, nt <= z3.Length(st_), f(rt, st_, nt)),
                        z3.And(0 <= w(rt, st_, nt), w(rt, st_, nt) < nt, Inp.acc['output_reference'](st_[w(rt, st_, nt)]) == rt)), BOOL)


@GH.ghost('cum_subsidy')
def cum_subsidy(eng, st, h):
    """cumulative subsidy of heights 0..h in closed form: full eras below h's era, plus the started part of h's era"""
    tab = era_table()
    I = DOC_HALVING_INTERVAL
    ht = eng.term(h, INT)
    e = ht / I
    r = z3.IntVal(I * sum(tab))           # eras beyond the table contribute nothing
    for k in range(len(tab) - 1, -1, -1):
        r = z3.If(e == k, z3.IntVal(I * sum(tab[:k])) + (ht - k * I + 1) * tab[k], r)
    return V(r, INT)


@GH.ghost('encodable')
def encodable(eng, st, block):
    """A-ENC: Block.serialize() returns only if every field fits its wire format; here: every output value fits 8 bytes
    unsigned (struct.pack('>Q') raises otherwise).  Codec obligations are C07."""
    from pyvc.types import to_sort
    BS = to_sort(CLS('Block'), eng.reg)
    f = eng.uf('encodable', BS, z3.BoolSort())
    return V(f(eng.term(block, CLS('Block'), st)), BOOL)


@GH.ghost('encodable_any')
def encodable_any(eng, st, obj):
    """what a normal return of serialize() tells about the receiver: for a Block, G.encodable(block); else nothing"""
    if isinstance(obj, V) and obj.ty.kind == 'cls' and eng.reg.root_of(obj.ty.args[0]) == 'Block':
        return encodable(eng, st, obj)
    return V(z3.BoolVal(True), BOOL)


@GH.ghost('encodable_fact')
def encodable_fact(eng, st, block, m, k):
    """instance of A-ENC at transaction m, output k of the block"""
    (s1, val), = list(eng.ev(__import__('ast').parse("block.transactions[m].outputs[k].value", mode='eval').body,
                             _with(eng, st, block=block, m=m, k=k)))
    enc = encodable(eng, st, block).t
    mt, kt = eng.term(m, INT), eng.term(k, INT)
    return V(z3.Implies(enc, z3.And(val.t >= 0, val.t < 2 ** 64)), BOOL)


def _with(eng, st, **names):
    from pyvc.engine import Frame
    sub = st.fork()
    sub.spec = True
    sub.stack.append(Frame(dict(names), len(sub.stack) - 1, sub.frame.globs, sub.frame.qualname))
    return sub
_pred('block_fees_ok', [LIST(CLS('Transaction')), MAP(CLS('OutputReference'), CLS('Output'))])


@GH.ghost('member')
def member(eng, st, x, lst):
    """x is (the same value as) an element of the list"""
    lt = eng.lift(lst, st) if not isinstance(lst, V) else lst
    k = eng.fresh_term('mk', z3.IntSort())
    xt = eng.term(x, lt.ty.args[0], st)
    return V(z3.Exists([k], z3.And(0 <= k, k < z3.Length(lt.t), lt.t[k] == xt)), BOOL)


@GH.ghost('store')
def store(eng, st):
    """the block store singleton (DefaultBlockStore.instance) of this activation"""
    import skepticoin.blockstore as bs
    return eng.singleton_refs[id(bs.DefaultBlockStore.instance)]
_pred('coinbase_built', [INT, LIST(CLS('Transaction')), MAP(CLS('OutputReference'), CLS('Output')), BYTES, CLS('PublicKey')])
_pred('summary_built', [CLS('CoinState'), LIST(CLS('Transaction')), INT, INT])
_pred('candidate_built', [CLS('CoinState'), LIST(CLS('Transaction')), CLS('PublicKey'), INT, BYTES, INT])


# ---- C11: the framing specification -----------------------------------------------------------------------------------
# parse(s): the frames a byte string s contains, read from the left: magic 'MAJI', 4-byte big-endian length L <= limit,
# L payload bytes; stops at the first incomplete frame (residue) or refuses at a wrong magic / over-limit length.

FRAME_MAGIC = b'MAJI'                   # the statement's "magic"; compared with the code's constant by a lemma
FRAME_LIMIT = 32 * 1024 * 1024          # networking/params.md: 32 MiB


def _parse_ufs(eng):
    from pyvc.types import BYTES_SORT
    SB = z3.SeqSort(BYTES_SORT)
    return (eng.uf('parse_ok', BYTES_SORT, z3.BoolSort()), eng.uf('parse_delivered', BYTES_SORT, SB),
            eng.uf('parse_rest', BYTES_SORT, BYTES_SORT))


def _parse_unfold(eng, s, st=None):
    """ground instance of the defining equations of parse at the byte string s"""
    from pyvc.types import BYTES_SORT
    from pyvc.engine import bytes_term
    ok, dl, rest = _parse_ufs(eng)
    # (re-)instantiated at every mention: the path condition of the mentioning state may allow simpler slice terms
    n = eng.norm_len(s, st)
    magic_ok = eng.mk_extract(s, 0, 4, st) == bytes_term(FRAME_MAGIC)
    lenbytes = eng.mk_extract(s, 4, 4, st)
    L = eng.bytes_to_int(lenbytes, None, (4,)).t
    empty = z3.Empty(z3.SeqSort(BYTES_SORT))
    stop = z3.And(ok(s), dl(s) == empty, rest(s) == s)
    refuse = z3.And(z3.Not(ok(s)), dl(s) == empty)
    tail = eng.mk_extract(s, 8 + L, n - (8 + L), st)
    payload = eng.mk_extract(s, 8, L, st)
    eng.add_func_axiom(z3.Implies(n < 4, stop))
    eng.add_func_axiom(z3.Implies(z3.And(n >= 4, z3.Not(magic_ok)), refuse))
    eng.add_func_axiom(z3.Implies(z3.And(n >= 4, magic_ok, n < 8), stop))
    eng.add_func_axiom(z3.Implies(z3.And(n >= 8, magic_ok, L > FRAME_LIMIT), refuse))
    eng.add_func_axiom(z3.Implies(z3.And(n >= 8, magic_ok, L <= FRAME_LIMIT, n < 8 + L), stop))
    eng.add_func_axiom(z3.Implies(z3.And(n >= 8, magic_ok, L <= FRAME_LIMIT, n >= 8 + L),
                                  z3.And(ok(s) == ok(tail), dl(s) == z3.Concat(z3.Unit(payload), dl(tail)), rest(s) == rest(tail))))


@GH.ghost('parse_ok')
def parse_ok(eng, st, s):
    t = eng.mk_concat(eng.term(s, BYTES, st))
    _parse_unfold(eng, t, st)
    return V(_parse_ufs(eng)[0](t), BOOL)


@GH.ghost('parse_delivered')
def parse_delivered(eng, st, s):
    t = eng.mk_concat(eng.term(s, BYTES, st))
    _parse_unfold(eng, t, st)
    return V(_parse_ufs(eng)[1](t), LIST(BYTES))


@GH.ghost('parse_rest')
def parse_rest(eng, st, s):
    t = eng.mk_concat(eng.term(s, BYTES, st))
    _parse_unfold(eng, t, st)
    return V(_parse_ufs(eng)[2](t), BYTES)


@GH.ghost('pack4')
def pack4(eng, st, x):
    return eng.int_to_bytes(eng.term(x, INT), 4, st)


# ---- C07: enc(v), the bytes v.serialize() returns, defined by the class's own stream_serialize ---------------------------

def enc_uf(eng, v):
    from pyvc.types import BYTES_SORT
    return eng.uf('enc', v.t.sort(), BYTES_SORT)(v.t)


@GH.ghost('enc_of')
def enc_of(eng, st, v):
    """enc(v) unfolded one level: the real stream_serialize of v's class is executed on an empty stream (component objects
    contribute through their own contracts, i.e. as enc(component)); the result is tied to the summary term enc(v)."""
    from pyvc.engine import State, Frame, Raised, HeapObj, Ref
    from pyvc.types import BYTES_SORT
    if not (isinstance(v, V) and v.ty.kind == 'cls'):
        raise Outside("enc_of of a non-object")
    root = eng.reg.root_of(v.ty.args[0])
    cis = eng.reg.concrete(root)
    if v.ty.args[0] in eng.reg.classes and v.ty.args[0] != root:
        cis = [eng.reg.classes[v.ty.args[0]]]
    cases = []
    for ci in cis:
        fn = None
        for k in ci.pyclass.__mro__:
            if 'stream_serialize' in k.__dict__:
                fn = k.__dict__['stream_serialize']
                break
        sub = State()
        sub.stack = [Frame({}, None, fn.__globals__, 'enc_of')]
        sub.pc = [ci.recog(v.t)] if len(eng.reg.concrete(root)) > 1 else []
        (s0, f), = list(eng.new_stream([], sub))
        outs = []
        for s2, r in eng.call_function(fn, [V(v.t, CLS(ci.name)), f], {}, s0, inline=True):
            if isinstance(r, Raised):
                continue
            # decisions (branch conditions: which subclass, which path) guard the case; the other facts of the path
            # only constrain symbols introduced by this very execution (loop-head values described by the verified
            # invariants of the inlined list encoder, results of callee contracts): they define the returned term
            decs = [d for d in s2.dec]
            ids = {d.get_id() for d in decs}
            facts = [c for c in s2.pc if c.get_id() not in ids and not any(c.eq(x) for x in sub.pc)]
            cond = eng._and(list(sub.pc) + decs)
            outs.append((cond, s2.heap[f.loc].fields['data'].t, facts))
        for cond, data, facts in outs:
            cases.append((cond, data))
            if not st.bound:
                for fct in facts:
                    eng.add_func_axiom(z3.Implies(eng.b(cond), fct))
    if not cases:
        raise Outside("stream_serialize of %s has no normal outcome" % root)
    e = enc_uf(eng, v)
    eng.last_enc_conditions = [c for c, _d in cases]      # under which the real encoder returns normally (lemma RT1 assumes it)
    term = cases[-1][1]
    for cond, data in reversed(cases[:-1]):
        term = z3.If(eng.b(cond), data, term)
    for cond, data in cases:
        if not st.bound:
            eng.add_func_axiom(z3.Implies(eng.b(cond), e == data))
    return V(term, BYTES)


@GH.ghost('vlq')
def vlq(eng, st, i):
    """the bytes stream_serialize_vlq writes for i (summary of that function; see contracts/codec.py)"""
    from pyvc.types import BYTES_SORT
    f = eng.uf('vlq_enc', z3.IntSort(), BYTES_SORT)
    t = f(eng.term(i, INT))
    if not st.bound:
        eng.add_func_axiom(z3.Length(t) >= 1)
    return V(t, BYTES)


@GH.ghost('enc_list')
def enc_list(eng, st, lst, i):
    """concatenation of the encodings of the first i elements of a list of serializable objects (prefix recursion)"""
    from pyvc.types import BYTES_SORT, to_sort
    lv = eng.lift(lst, st) if not isinstance(lst, V) else lst
    es = to_sort(lv.ty.args[0], eng.reg)
    LS = z3.SeqSort(es)
    f = eng.uf('enc_list', LS, z3.IntSort(), BYTES_SORT)
    enc = eng.uf('enc', es, BYTES_SORT)
    key = 'enc_list/' + str(es)
    if key not in eng._ghost_defs:
        eng._ghost_defs.add(key)
        ll = z3.Const('el!l_' + str(es), LS)
        kk = z3.Int('el!k')
        eng.axioms.append(z3.ForAll([ll], f(ll, 0) == z3.Empty(BYTES_SORT), patterns=[f(ll, 0)]))
        eng.axioms.append(z3.ForAll([ll, kk], z3.Implies(z3.And(kk >= 0, kk < z3.Length(ll)),
                                                         f(ll, kk + 1) == z3.Concat(f(ll, kk), enc(ll[kk]))), patterns=[f(ll, kk + 1)]))
    it = eng.term(i, INT)
    if not st.bound:
        eng.add_func_axiom(f(lv.t, z3.IntVal(0)) == z3.Empty(BYTES_SORT))
        eng.add_func_axiom(z3.Implies(z3.And(it - 1 >= 0, it - 1 < z3.Length(lv.t)),
                                      f(lv.t, it) == z3.Concat(f(lv.t, it - 1), enc(lv.t[it - 1]))))
        # prefix stability (lemma ghost.enc_list-prefix, proved by induction in lemmas.py): the encoding of the first k
        # elements does not depend on what follows them
        if z3.is_app_of(lv.t, z3.Z3_OP_SEQ_CONCAT) and z3.is_app_of(lv.t.arg(lv.t.num_args() - 1), z3.Z3_OP_SEQ_UNIT):
            rest = [lv.t.arg(k) for k in range(lv.t.num_args() - 1)]
            base = rest[0] if len(rest) == 1 else z3.Concat(*rest)
            for k in (it, z3.simplify(it - 1)):
                eng.add_func_axiom(z3.Implies(z3.And(k >= 0, k <= z3.Length(base)), f(lv.t, k) == f(base, k)))
    return V(f(lv.t, it), BYTES)


@GH.ghost('id_ok')
def id_ok(eng, st, v):
    """the id cached in a decoded object (if any) is the double SHA-256 of its canonical encoding (of its header's, for a
    block); for the classes without a cached id this is True"""
    from pyvc.types import BYTES_SORT, opt_sort
    from pyvc.interp import Interp
    if not (isinstance(v, V) and v.ty.kind == 'cls'):
        raise Outside("id_ok of a non-object")
    name = v.ty.args[0]
    if name not in ('Transaction', 'Block'):
        return V(z3.BoolVal(True), BOOL)
    ci = eng.reg.classes[name]
    ch = Interp.field_term(ci, 'cached_hash', v.t)
    O = opt_sort(BYTES_SORT)
    sha = eng.uf('sha256d', BYTES_SORT, BYTES_SORT)
    if name == 'Transaction':
        e = enc_uf(eng, v)
    else:
        hci = eng.reg.classes['BlockHeader']
        e = enc_uf(eng, V(Interp.field_term(ci, 'header', v.t), CLS('BlockHeader')))
    eng.assumptions_used.add('A-HASH')
    return V(z3.Or(O.is_none(ch), z3.And(O.is_some(ch), O.val(ch) == sha(e))), BOOL)


# ---- C17: the merkle commitment as a specification function --------------------------------------------------------------
#   pair(l, k)   = the first k entries of the next level:  pair(l, 0) = [],
#                  pair(l, k+1) = pair(l, k) + [H(l[2k] + l[2k+1])]   if 2k+1 < len(l)
#                               = pair(l, k) + [l[2k]]               if 2k+1 == len(l)          (odd last entry is promoted)
#   mroot([x])   = x ;   mroot(l) = mroot(pair(l, (len(l)+1)//2))   for len(l) >= 2
# lean/Merkle.lean proves (free hash algebra) that mroot determines the list.

def _merkle_ufs(eng):
    from pyvc.types import BYTES_SORT
    LS = z3.SeqSort(BYTES_SORT)
    return (eng.uf('mroot', LS, BYTES_SORT), eng.uf('mpair', LS, z3.IntSort(), LS),
            eng.uf('sha256d', BYTES_SORT, BYTES_SORT))


def _mpair_unfold(eng, st, lt, kt):
    root, pair, sha = _merkle_ufs(eng)
    if st.bound:
        return
    eng.add_func_axiom(pair(lt, z3.IntVal(0)) == z3.Empty(lt.sort()))
    for k in (kt, z3.simplify(kt - 1)):
        both = z3.And(k >= 0, 2 * k + 1 < z3.Length(lt))
        last = z3.And(k >= 0, 2 * k + 1 == z3.Length(lt))
        eng.add_func_axiom(z3.Implies(both, pair(lt, k + 1) == z3.Concat(pair(lt, k), z3.Unit(sha(z3.Concat(lt[2 * k], lt[2 * k + 1]))))))
        eng.add_func_axiom(z3.Implies(last, pair(lt, k + 1) == z3.Concat(pair(lt, k), z3.Unit(lt[2 * k]))))
        eng.add_func_axiom(z3.Implies(z3.And(k >= 0, 2 * k <= z3.Length(lt) + 1), z3.Length(pair(lt, k)) == k))
    eng.assumptions_used.add('A-HASH')


@GH.ghost('mpair')
def mpair(eng, st, lst, k):
    lv = eng.lift(lst, st) if not isinstance(lst, V) else lst
    kt = eng.term(k, INT)
    _mpair_unfold(eng, st, lv.t, kt)
    return V(_merkle_ufs(eng)[1](lv.t, kt), LIST(BYTES))


@GH.ghost('mroot')
def mroot(eng, st, lst):
    lv = eng.lift(lst, st) if not isinstance(lst, V) else lst
    root, pair, sha = _merkle_ufs(eng)
    lt = lv.t
    if not st.bound:
        n = z3.Length(lt)
        half = (n + 1) / 2
        eng.add_func_axiom(z3.Implies(n == 1, root(lt) == lt[0]))
        eng.add_func_axiom(z3.Implies(n >= 2, root(lt) == root(pair(lt, half))))
        _mpair_unfold(eng, st, lt, half)
    return V(root(lt), BYTES)


# ---- C18: the checkpoint table as pinned when the contracts were written (consensus data) ---------------------------------

def pinned_checkpoints():
    import json, os
    d = json.load(open(os.path.join(os.path.dirname(os.path.abspath(__file__)), 'checkpoints_pinned.json')))
    return d['max_height'], {int(k): bytes.fromhex(v) for k, v in d['table'].items()}


@GH.ghost('is_checkpoint')
def is_checkpoint(eng, st, h):
    _m, table = pinned_checkpoints()
    ht = eng.term(h, INT)
    return V(z3.Or(*[ht == k for k in sorted(table)]), BOOL)


@GH.ghost('checkpoint')
def checkpoint(eng, st, h):
    from pyvc.engine import bytes_term
    _m, table = pinned_checkpoints()
    ht = eng.term(h, INT)
    ks = sorted(table)
    t = bytes_term(table[ks[-1]])
    for k in reversed(ks[:-1]):
        t = z3.If(ht == k, bytes_term(table[k]), t)
    return V(t, BYTES)


# ---- C14: signatures made by the wallet (A-ECDSA) ------------------------------------------------------------------------

@GH.ghost('signed_input')
def signed_input(eng, st, inp, priv, msg):
    """the input carries a SECP256k1 signature object whose bytes were produced by signing msg with the private key priv"""
    from pyvc.types import to_sort, opt_sort, BYTES_SORT
    reg = eng.reg
    Inp = reg.classes['Input']
    Sig = reg.classes['SECP256k1Signature']
    SigS = to_sort(CLS('Signature'), reg)
    o = opt_sort(SigS)
    sig_opt = Inp.acc['signature'](inp.t)
    sig = o.val(sig_opt)
    made = eng.uf('ecdsa_signed', BYTES_SORT, BYTES_SORT, BYTES_SORT, z3.BoolSort())
    return V(z3.And(o.is_some(sig_opt), Sig.recog(sig),
                    made(eng.term(priv, BYTES, st), eng.term(msg, BYTES, st), Sig.acc['signature'](sig))), BOOL)


# ---- C07 / RT1: the VLQ decoder reads back what the VLQ encoder wrote (part of the trusted summary of the pair) ---------

def _vlq_operand_at(eng, st, data_t, p0_t):
    """the operand of the concatenation `data` that starts exactly at offset p0, if it is an encoder output vlq(i)"""
    ops = eng._concat_args(data_t) if z3.is_app_of(data_t, z3.Z3_OP_SEQ_CONCAT) else [data_t]
    acc = z3.IntVal(0)
    for op in ops:
        if z3.is_app(op) and op.decl().kind() == z3.Z3_OP_UNINTERPRETED and op.decl().name().startswith('vlq_enc'):
            if eng.entails(st, z3.simplify(acc) == p0_t):
                return op
        acc = acc + z3.Length(op)
    return None


@GH.ghost('vlq_readback')
def vlq_readback(eng, st, d0, p0, result, newpos):
    dt, pt = eng.term(d0, BYTES, st), eng.term(p0, INT)
    op = _vlq_operand_at(eng, st, dt, pt)
    if op is None:
        return V(z3.BoolVal(True), BOOL)
    return V(z3.And(eng.term(result, INT) == op.arg(0), eng.term(newpos, INT) == pt + z3.Length(op)), BOOL)


@GH.ghost('vlq_at')
def vlq_at(eng, st, d0, p0):
    op = _vlq_operand_at(eng, st, eng.term(d0, BYTES, st), eng.term(p0, INT))
    return V(z3.BoolVal(op is not None), BOOL)
