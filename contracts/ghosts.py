"""Ghost functions usable in contract text as G.<name>(...).  Each takes (engine, state, *values) and returns a value.
Definitions are independent of the code under verification: they come from the property statements."""
import z3
from pyvc import V, INT, BOOL, BYTES, LIST, CLS, Outside
from pyvc.spec import ContractSet

GH = ContractSet()

# ---- C16: the documented monetary schedule -------------------------------------------------------------------------
COIN = 100_000_000                      # docs/params.md: 1 coin = 10^8 sashimi
DOC_INITIAL_SUBSIDY_COIN = 10           # statement: "The block subsidy is 10 coin"
DOC_HALVING_INTERVAL = 1_050_000        # statement: "halved ... every 1,050,000 blocks"
DOC_MAX_SUPPLY = 2_099_999_986_350_000  # statement: "exactly 2,099,999,986,350,000 sashimi"


def era_table():
    """subsidy per era by iterated integer halving, until exhausted"""
    t = []
    s = DOC_INITIAL_SUBSIDY_COIN * COIN
    while s > 0:
        t.append(s)
        s //= 2
    return t


@GH.ghost('era_subsidy')
def era_subsidy(eng, st, k):
    """subsidy of era k >= 0 (the statement's '10 coin halved by integer division k times'); 0 once exhausted"""
    tab = era_table()
    kt = eng.term(k, INT)
    r = z3.IntVal(0)
    for j in range(len(tab) - 1, -1, -1):
        r = z3.If(kt == j, z3.IntVal(tab[j]), r)
    return V(r, INT)


# ---- C01: what a verifying spend is ---------------------------------------------------------------------------------

@GH.ghost('spend_verifies')
def spend_verifies(eng, st, inp, prev_out, tx):
    """the input carries a real signature object that the spent output's key accepts over the transaction's
    signable form, i.e. over enc(signable(tx)) where signable keeps every reference and every output"""
    import skepticoin.datatypes as d
    import skepticoin.signing as sg
    from pyvc.types import to_sort, opt_sort, BYTES_SORT
    reg = eng.reg
    Inp = reg.classes['Input']
    Out = reg.classes['Output']
    Sig = reg.classes['SECP256k1Signature']
    TxS = to_sort(CLS('Transaction'), reg)
    SigS = to_sort(CLS('Signature'), reg)
    PkS = to_sort(CLS('PublicKey'), reg)
    o = opt_sort(SigS)
    sig_opt = Inp.acc['signature'](inp.t)
    sig = o.val(sig_opt)
    signable = eng.uf('signable', TxS, TxS)
    enc = eng.uf('enc', TxS, BYTES_SORT)
    ver = eng.uf('ecdsa_verifies', PkS, SigS, BYTES_SORT, z3.BoolSort())
    pk = Out.acc['public_key'](prev_out.t)
    return V(z3.And(o.is_some(sig_opt), Sig.recog(sig), ver(pk, sig, enc(signable(tx.t)))), BOOL)


@GH.ghost('ecdsa')
def ecdsa(eng, st, pk, sig, msg):
    """the verification summary of SECP256k1PublicKey.validate as a predicate (A-ECDSA)"""
    from pyvc.types import to_sort, BYTES_SORT
    PkS = to_sort(CLS('PublicKey'), eng.reg)
    SigS = to_sort(CLS('Signature'), eng.reg)
    ver = eng.uf('ecdsa_verifies', PkS, SigS, BYTES_SORT, z3.BoolSort())
    return V(ver(eng.term(pk, None, st), eng.term(sig, CLS('Signature'), st), eng.term(msg, BYTES, st)), BOOL)


# ---- C05: numeric reading of 32-byte strings --------------------------------------------------------------------------

@GH.ghost('be')
def be(eng, st, b):
    """big-endian value of a byte string (the same function int.from_bytes(..., 'big') and struct.unpack compute)"""
    return eng.bytes_to_int(eng.term(b, BYTES, st), st)


@GH.ghost('to_be32')
def to_be32(eng, st, x):
    return eng.int_to_bytes(eng.term(x, INT), 32, st)


@GH.ghost('to_be8')
def to_be8(eng, st, x):
    return eng.int_to_bytes(eng.term(x, INT), 8, st)


# ---- "the validator returns normally" predicates (defined by Contract.predicate; see pyvc.verify.predicate_term) -------

def _pred(name, tys):
    def g(eng, st, *args):
        from pyvc.types import to_sort
        ts = [eng.term(a, t, st) for a, t in zip(args, tys)]
        f = eng.uf('pred_' + name, *([t.sort() for t in ts] + [z3.BoolSort()]))
        return V(f(*ts), BOOL)
    GH.ghosts[name] = g


_pred('tx_by_itself', [CLS('Transaction')])
_pred('tx_in_state', [CLS('Transaction'), BYTES, CLS('CoinState')])
_pred('coinbase_by_itself', [CLS('Transaction')])
_pred('coinbase_in_state', [CLS('Transaction'), CLS('Block'), CLS('CoinState')])
_pred('no_dup_txs', [LIST(CLS('Transaction'))])
_pred('no_dup_refs', [LIST(CLS('Transaction'))])
_pred('header_ok', [CLS('BlockHeader'), INT])
_pred('pow_ok', [BYTES, BYTES])
_pred('ok_itself', [CLS('Block'), INT])
_pred('ok_in_state', [CLS('Block'), CLS('CoinState')])
_pred('summary_in_state', [CLS('BlockSummary'), CLS('CoinState')])
_pred('applies', [CLS('CoinState'), CLS('Block')])
