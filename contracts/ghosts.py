"""Ghost functions usable in contract text as G.<name>(...).  Each takes (engine, state, *values) and returns a value.
Definitions are independent of the code under verification: they come from the property statements."""
import z3
from pyvc import V, INT, BOOL, BYTES, LIST, CLS, Outside
from pyvc.spec import ContractSet

GH = ContractSet()

# ---- C16: the documented monetary schedule -------------------------------------------------------------------------
COIN = 100_000_000                      # docs/params.md: 1 coin = 10^8 sashimi
DOC_INITIAL_SUBSIDY_COIN = 10           # statement: "The block subsidy is 10 coin"
DOC_HALVING_INTERVAL = 1_050_000        # statement: "halved ... every 1,050,000 blocks"
DOC_MAX_SUPPLY = 2_099_999_986_350_000  # statement: "exactly 2,099,999,986,350,000 sashimi"


def era_table():
    """subsidy per era by iterated integer halving, until exhausted"""
    t = []
    s = DOC_INITIAL_SUBSIDY_COIN * COIN
    while s > 0:
        t.append(s)
        s //= 2
    return t


@GH.ghost('era_subsidy')
def era_subsidy(eng, st, k):
    """subsidy of era k >= 0 (the statement's '10 coin halved by integer division k times'); 0 once exhausted"""
    tab = era_table()
    kt = eng.term(k, INT)
    r = z3.IntVal(0)
    for j in range(len(tab) - 1, -1, -1):
        r = z3.If(kt == j, z3.IntVal(tab[j]), r)
    return V(r, INT)
