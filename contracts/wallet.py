"""Contracts for skepticoin/wallet.py (C14, C15)."""
from pyvc import *
from pyvc.spec import ContractSet

WL = ContractSet()


def wallet_shape():
    import skepticoin.wallet as w
    return StateShape(w.Wallet,
                      keypairs=('mutable', 'dict', MAP(BYTES, BYTES)),
                      unused_public_keys=('mutable', 'list', LIST(BYTES)),
                      public_key_annotations=('mutable', 'dict', MAP(BYTES, STR)),
                      spent_transaction_outputs=('mutable', 'set', SET(CLS('OutputReference'))))


@WL.contract("skepticoin.wallet.sign_transaction", props=["C14"])
def _(c):
    c.params(wallet=wallet_shape())
    c.params(unspent_transaction_outs=MAP(CLS('OutputReference'), CLS('Output')))
    c.let(msg="transaction.signable_equivalent().serialize()", n="len(transaction.inputs)")
    c.ensures(
        "len(result.inputs) == n",
        "result.outputs == transaction.outputs",
        "result.cached_hash is None",
        # every input keeps its reference and carries a signature made over the signable form with the private key the
        # wallet holds for the key that the spent output pays
        "all(result.inputs[j].output_reference == transaction.inputs[j].output_reference for j in range(n))",
        "all(transaction.inputs[j].output_reference in unspent_transaction_outs for j in range(n))",
        "all(unspent_transaction_outs[transaction.inputs[j].output_reference].public_key.public_key in wallet.keypairs for j in range(n))",
        "all(G.signed_input(result.inputs[j], wallet.keypairs[unspent_transaction_outs[transaction.inputs[j].output_reference].public_key.public_key], msg) for j in range(n))",
        # the signed transaction spends the same total
        "sum(unspent_transaction_outs[x.output_reference].value for x in result.inputs) == "
        "sum(unspent_transaction_outs[transaction.inputs[j].output_reference].value for j in range(n))")
    c.local(signed_inputs=LIST(CLS('Input')))
    c.loop(0).invariant(
        "len(signed_inputs) == i",
        "all(signed_inputs[j].output_reference == transaction.inputs[j].output_reference for j in range(i))",
        "all(transaction.inputs[j].output_reference in unspent_transaction_outs for j in range(i))",
        "all(unspent_transaction_outs[transaction.inputs[j].output_reference].public_key.public_key in wallet.keypairs for j in range(i))",
        "all(G.signed_input(signed_inputs[j], wallet.keypairs[unspent_transaction_outs[transaction.inputs[j].output_reference].public_key.public_key], msg) for j in range(i))",
        "sum(unspent_transaction_outs[x.output_reference].value for x in signed_inputs) == "
        "sum(unspent_transaction_outs[transaction.inputs[j].output_reference].value for j in range(i))")
    # the wallet is only read


PKB = MAP(CLS('PublicKey'), TUPLE(INT, LIST(CLS('OutputReference'))))


@WL.contract("skepticoin.balances.PublicKeyBalances.__getitem__", props=["C14", "C15"])
def _(c):
    c.summary("pkb_at")
    c.returns(PKB)
    c.no_raise()
    c.trust("the per-key balance index of a stored block is a function of (chain state, block id); that it lists exactly the "
            "unspent outputs paying each key (C03 coherence) is explored boundedly under C03 and appears as an explicit "
            "precondition where C14 needs it")


# the balance index at the head lists only unspent outputs paying that very key (C03 coherence, a precondition here)
COHERENT = ("every(PublicKey, lambda k: implies(k in B, all(B[k][1][j] in U and same(U[B[k][1][j]].public_key, k) "
            "for j in range(len(B[k][1])))))")
INPUTS_OK = ["all(%(L)s[j].output_reference in U for j in range(len(%(L)s)))",
             "all(U[%(L)s[j].output_reference].public_key.public_key in wallet.keypairs for j in range(len(%(L)s)))",
             "all(%(L)s[j].output_reference not in spent0 for j in range(len(%(L)s)))"]


@WL.contract("skepticoin.wallet.create_spend_transaction", props=["C14"])
def _(c):
    c.params(wallet=wallet_shape())
    c.let(H="coinstate.current_chain_hash",
          U="coinstate.unspent_transaction_outs_by_hash[coinstate.current_chain_hash]",
          B="coinstate.public_key_balances_by_hash[coinstate.current_chain_hash]",
          spent0="wallet.spent_transaction_outputs")
    c.requires("value > 0", "miners_fee >= 0", "coinstate.current_chain_hash is not None", "len(coinstate.current_chain_hash) == 32",
               "coinstate.current_chain_hash in coinstate.unspent_transaction_outs_by_hash", COHERENT)
    c.ensures(
        # pays exactly the amount to the recipient
        "len(result.outputs) >= 1 and result.outputs[0].value == value and same(result.outputs[0].public_key, output_public_key)",
        # exactly inputs - amount - fee goes to the change key; no change output when that is zero
        "sum(U[i.output_reference].value for i in result.inputs) >= value + miners_fee",
        "implies(sum(U[i.output_reference].value for i in result.inputs) == value + miners_fee, len(result.outputs) == 1)",
        "implies(sum(U[i.output_reference].value for i in result.inputs) != value + miners_fee, len(result.outputs) == 2 and "
        "result.outputs[1].value == sum(U[i.output_reference].value for i in result.inputs) - value - miners_fee and "
        "same(result.outputs[1].public_key, change_address))",
        # spends only unspent outputs paying keys of this wallet that no earlier spend of this wallet used
        *[t % {'L': 'result.inputs'} for t in INPUTS_OK],
        "len(result.inputs) >= 1",
        # the record of used outputs grows by exactly the inputs of this spend
        "every(OutputReference, lambda r: implies(r in spent0, r in wallet.spent_transaction_outputs))",
        "all(result.inputs[j].output_reference in wallet.spent_transaction_outputs for j in range(len(result.inputs)))")
    # (that NOTHING ELSE enters the record - an existential over the inputs in the conclusion - was discharged only with some
    # solver seeds; a clause that is not decided the same way on every run is not kept: it is absent, not assumed)
    # a failed attempt (insufficient funds or any error) leaves the record as it was
    c.on_raise("same(wallet.spent_transaction_outputs, spent0)")
    c.modifies("wallet.spent_transaction_outputs")
    c.local(inputs=LIST(CLS('Input')), outputs=LIST(CLS('Output')))
    inv = ["collected_value == sum(U[i.output_reference].value for i in inputs)",
           "collected_value < value + miners_fee",
           *[t % {'L': 'inputs'} for t in INPUTS_OK],
           "all(inputs[j].signature is None for j in range(len(inputs)))",
           "same(wallet.spent_transaction_outputs, spent0)"]
    # at the call that signs: the facts of the invariant for the list including the output just added
    c.before_call("sign_transaction", *[t % {'L': 'inputs'} for t in INPUTS_OK],
                  "collected_value == sum(U[i.output_reference].value for i in inputs)")
    c.loop(0).index("a").invariant(*inv)
    c.loop(1).index("b").invariant(*inv)


# ---- C15: keys are handed out once ---------------------------------------------------------------------------------------
# Representation invariant of the wallet's key bookkeeping: the unused keys are distinct, none of them carries an
# annotation (an annotation marks a key as handed out), all of them have a key pair.
WINV = ["all(%(w)s.unused_public_keys[j] not in %(w)s.public_key_annotations for j in range(len(%(w)s.unused_public_keys)))",
        "all(all(implies(j1 != j2, %(w)s.unused_public_keys[j1] != %(w)s.unused_public_keys[j2]) "
        "for j2 in range(len(%(w)s.unused_public_keys))) for j1 in range(len(%(w)s.unused_public_keys)))",
        "all(%(w)s.unused_public_keys[j] in %(w)s.keypairs for j in range(len(%(w)s.unused_public_keys)))"]


@WL.contract("skepticoin.wallet.Wallet.get_annotated_public_key#C15", props=["C15"])
def _(c):
    c.params(self=wallet_shape())
    c.let(u0="self.unused_public_keys", a0="self.public_key_annotations", n0="len(self.unused_public_keys)")
    c.requires(*[t % {'w': 'self'} for t in WINV])
    c.ensures(
        # while unused keys remain: the key handed out was never handed out before, and will not be handed out again
        # (which of the unused keys is handed out is not part of the property: only that it was unused, is now recorded as
        # handed out, and that every other unused key stays unused)
        "implies(n0 > 0, result in u0 and result not in a0 and result in self.public_key_annotations)",
        "implies(n0 > 0, len(self.unused_public_keys) == n0 - 1)",
        "implies(n0 > 0, every(bytes, lambda k: implies(k != result, (k in self.unused_public_keys) == (k in u0))))",
        "implies(n0 > 0, all(self.unused_public_keys[j] != result for j in range(len(self.unused_public_keys))))",
        "every(bytes, lambda k: implies(k != result, (k in self.public_key_annotations) == (k in a0)))",
        "implies(n0 > 0, result in self.keypairs)",
        # no unused key left: some key of the wallet is re-used (documented behaviour), nothing is recorded
        "implies(n0 == 0, same(self.public_key_annotations, a0) and len(self.unused_public_keys) == 0)",
        *[t % {'w': 'self'} for t in WINV])
    c.modifies("self.unused_public_keys", "self.public_key_annotations")


@WL.contract("skepticoin.wallet.Wallet.restore_annotated_public_key", props=["C15"])
def _(c):
    c.params(self=wallet_shape())
    c.let(u0="self.unused_public_keys", a0="self.public_key_annotations", n0="len(self.unused_public_keys)")
    c.requires("public_key in self.keypairs", *[t % {'w': 'self'} for t in WINV])
    c.ensures("public_key not in self.public_key_annotations",
              "len(self.unused_public_keys) == n0 + 1 and public_key in self.unused_public_keys",
              "every(bytes, lambda k: implies(k != public_key, (k in self.unused_public_keys) == (k in u0)))",
              "every(bytes, lambda k: implies(k != public_key, (k in self.public_key_annotations) == (k in a0)))",
              *[t % {'w': 'self'} for t in WINV])
    # a key that is not handed out cannot be restored: KeyError, and NOTHING has changed (in particular the key was not
    # appended to the unused keys a second time)
    c.raises_only_if("public_key not in a0")
    c.on_raise("same(self.unused_public_keys, u0)", "same(self.public_key_annotations, a0)")
    c.modifies("self.unused_public_keys", "self.public_key_annotations")


# ---- C03: the balance index is a memo of a function of (stored blocks, block id) ----------------------------------------

def pkb_store_shape():
    import skepticoin.balances as bal
    return StateShape(bal.PublicKeyBalances, block_by_hash=MAP(BYTES, CLS('Block')),
                      cache=('mutable', 'dict', MAP(BYTES, PKB)))


@WL.contract("skepticoin.balances.PublicKeyBalances.public_key_balances_by_hash", props=["C03"])
def _(c):
    c.params(self=pkb_store_shape())
    c.summary("pkb_of_chain", args=["self.block_by_hash", "head"])
    c.returns(PKB)
    c.trust("the balances at a block are computed by replaying its chain from the stored blocks: a function of (stored blocks, "
            "block id) that reads and writes nothing else (its value against the unspent sets is the bounded part of C03)")


@WL.contract("skepticoin.balances.PublicKeyBalances.__getitem__#C03", props=["C03"])
def _(c):
    c.params(self=pkb_store_shape())
    c.let(cache0="self.cache")
    # the memo only ever holds what the function returns ...
    MEMO = "every(bytes, lambda k: implies(k in %s, same(%s[k], self.public_key_balances_by_hash(k))))"
    c.requires(MEMO % ("self.cache", "self.cache"))
    c.ensures("same(result, self.public_key_balances_by_hash(key))",
              MEMO % ("self.cache", "self.cache"),
              # ... and what was obtained earlier stays what it was
              "every(bytes, lambda k: implies(k in cache0 and k in self.cache, same(self.cache[k], cache0[k])))")
    # (whether an entry is KEPT is a matter of caching policy, not of the property: dropping one only costs a recomputation)
    c.modifies("self.cache")
