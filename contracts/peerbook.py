"""Contracts for the peer book (C19): reconnection back-off and the connected / disconnected maps of the NetworkManager."""
from pyvc import *
from pyvc.spec import ContractSet

PB = ContractSet()


def disconnected_shape():
    import skepticoin.networking.local_peer  # noqa (import cycle)
    import skepticoin.networking.remote_peer as rp
    return StateShape(rp.DisconnectedRemotePeer, host=STR, port=INT, direction=STR, last_connection_attempt=OPT(INT),
                      ban_score=INT)


# the documented schedule, spelled out: min(10 s * 2^k, 30 min)
BACKOFF = "ite(k == 0, 10, ite(k == 1, 20, ite(k == 2, 40, ite(k == 3, 80, ite(k == 4, 160, ite(k == 5, 320, " \
          "ite(k == 6, 640, ite(k == 7, 1280, 1800))))))))"


@PB.contract("skepticoin.networking.remote_peer.DisconnectedRemotePeer.is_time_to_connect", props=["C19"])
def _(c):
    c.params(self=disconnected_shape())
    c.returns(BOOL)
    c.let(k="self.ban_score", last="self.last_connection_attempt")
    c.requires("self.ban_score >= 0")
    c.ensures(
        # never beyond the configured number of consecutive failures (60 days of half-hourly attempts = 2880)
        "implies(result, k <= 2880)",
        # no sooner than min(10 s * 2^k, 30 min) after the previous attempt
        "implies(result and last is not None, current_time - last >= %s)" % BACKOFF,
        # and it IS time once that long has passed (or there was no attempt yet)
        "implies(k <= 2880 and (last is None or current_time - last >= %s), result)" % BACKOFF)
    c.no_raise()
