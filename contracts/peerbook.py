"""Contracts for the peer book (C19): reconnection back-off and the connected / disconnected maps of the NetworkManager."""
from pyvc import *
from pyvc.spec import ContractSet
import z3

PB = ContractSet()


def disconnected_shape():
    import skepticoin.networking.local_peer  # noqa (import cycle)
    import skepticoin.networking.remote_peer as rp
    return StateShape(rp.DisconnectedRemotePeer, host=STR, port=INT, direction=STR, last_connection_attempt=OPT(INT),
                      ban_score=INT)


# the documented schedule, spelled out: min(10 s * 2^k, 30 min)
BACKOFF = "ite(k == 0, 10, ite(k == 1, 20, ite(k == 2, 40, ite(k == 3, 80, ite(k == 4, 160, ite(k == 5, 320, " \
          "ite(k == 6, 640, ite(k == 7, 1280, 1800))))))))"


@PB.contract("skepticoin.networking.remote_peer.DisconnectedRemotePeer.is_time_to_connect", props=["C19"])
def _(c):
    c.params(self=disconnected_shape())
    c.returns(BOOL)
    c.let(k="self.ban_score", last="self.last_connection_attempt")
    c.requires("self.ban_score >= 0")
    c.ensures(
        # never beyond the configured number of consecutive failures (60 days of half-hourly attempts = 2880)
        "implies(result, k <= 2880)",
        # no sooner than min(10 s * 2^k, 30 min) after the previous attempt
        "implies(result and last is not None, current_time - last >= %s)" % BACKOFF,
        # and it IS time once that long has passed (or there was no attempt yet)
        "implies(k <= 2880 and (last is None or current_time - last >= %s), result)" % BACKOFF)
    c.no_raise()


# ---- the peer book's two maps -------------------------------------------------------------------------------------------
KEY = TUPLE(STR, INT, STR)


def book_shape(with_owner_book=True):
    import skepticoin.networking.local_peer  # noqa
    import skepticoin.networking.manager as m
    import skepticoin.networking.local_peer as lpm
    # the manager's `local_peer` refers back to the manager (A-ALIAS).  Heap shapes are trees, so the back reference is
    # spelled out one level deep as a separate cell that only makes the callee's contract text evaluable; what a call of
    # self.local_peer.disconnect(...) does is applied to the CALLING manager itself (disconnect_effect below).
    if with_owner_book:
        owner = StateShape(lpm.LocalPeer, logger=('const', ('logger',)), selector=('const', ('external',)),
                           network_manager=book_shape(False), disk_interface=('const', ('opaque',)), nonce=INT)
    else:
        owner = StateShape(lpm.LocalPeer, logger=('const', ('logger',)))
    return StateShape(m.NetworkManager, local_peer=owner,
                      my_addresses=('mutable', 'set', SET(TUPLE(STR, INT))),
                      connected_peers=('mutable', 'dict', MAP(KEY, INT)),          # values: peer objects, as opaque ids
                      disconnected_peers=('mutable', 'dict', MAP(KEY, CLS('DisconnectedRemotePeer'))),
                      disk_interface=('const', ('opaque',)))


# no address is both connected and waiting for reconnection
BOOK = "every(KEYT, lambda k: not (k in %(s)s.connected_peers and k in %(s)s.disconnected_peers))"


@PB.contract("skepticoin.networking.manager.NetworkManager._sanity_check#C19", props=["C19"])
def _(c):
    c.params(self=book_shape())
    # it returns exactly when the book is consistent (its raising is "the condition that stops the network loop")
    c.ensures(BOOK % {'s': 'self'})
    c.raises_only_if("not " + BOOK % {'s': 'self'})
    c.loop(0).invariant("all(ITERATED[j] not in self.disconnected_peers for j in range(i))")


def peer_shape():
    import skepticoin.networking.remote_peer as rp
    import skepticoin.networking.local_peer as lpm
    owner = StateShape(lpm.LocalPeer, logger=('const', ('logger',)))
    return StateShape(rp.ConnectedRemotePeer, local_peer=owner, host=STR, port=INT, direction=STR,
                      last_connection_attempt=OPT(INT), ban_score=INT, hello_received=BOOL, hello_sent=BOOL,
                      sock=('const', ('external',)))


@PB.contract("skepticoin.networking.manager.NetworkManager.handle_peer_disconnected#C19", props=["C19"])
def _(c):
    c.params(self=book_shape(), remote_peer=peer_shape())
    c.let(key="(remote_peer.host, remote_peer.port, remote_peer.direction)", conn0="self.connected_peers",
          disc0="self.disconnected_peers", k0="remote_peer.ban_score", hello="remote_peer.hello_received")
    c.ensures(
        # the book stays consistent, the peer is no longer connected
        BOOK % {'s': 'self'},
        "key not in self.connected_peers",
        "every(KEYT, lambda k: implies(k != key, (k in self.connected_peers) == (k in conn0)))",
        # an OUTGOING peer waits for reconnection; its failure count went up by one iff the connection ended without a greeting
        "implies(remote_peer.direction == 'OUTGOING', key in self.disconnected_peers and "
        "self.disconnected_peers[key].ban_score == k0 + (0 if hello else 1) and "
        "self.disconnected_peers[key].last_connection_attempt == remote_peer.last_connection_attempt and "
        "self.disconnected_peers[key].host == remote_peer.host and self.disconnected_peers[key].port == remote_peer.port and "
        "self.disconnected_peers[key].direction == remote_peer.direction)",
        "implies(remote_peer.direction == 'OUTGOING', remote_peer.ban_score == k0 + (0 if hello else 1))",
        # an incoming one is simply forgotten
        "implies(remote_peer.direction != 'OUTGOING', same(self.disconnected_peers, disc0) and remote_peer.ban_score == k0)",
        "every(KEYT, lambda k: implies(k != key, (k in self.disconnected_peers) == (k in disc0)))")
    # when it raises (inconsistent book, peer not connected) nothing was entered, and a consistent book stays consistent
    c.on_raise("same(self.disconnected_peers, disc0)", "k0 <= remote_peer.ban_score <= k0 + 1",
               "implies(hello, remote_peer.ban_score == k0)",
               "implies(every(KEYT, lambda k: not (k in conn0 and k in disc0)), %s)" % (BOOK % {'s': 'self'}))
    c.modifies("self.connected_peers", "self.disconnected_peers", "remote_peer.ban_score")



def owner_shape():
    """the local peer as the network handlers see it: its logger, its selector (external), its network manager"""
    import skepticoin.networking.local_peer as lpm
    return StateShape(lpm.LocalPeer, logger=('const', ('logger',)), selector=('const', ('external',)),
                      network_manager=book_shape(), disk_interface=('const', ('opaque',)), nonce=INT)


def connected_shape(owner=None):
    import skepticoin.networking.remote_peer as rp
    return StateShape(rp.ConnectedRemotePeer, local_peer=owner or owner_shape(), host=STR, port=INT, direction=STR,
                      last_connection_attempt=OPT(INT), ban_score=INT, hello_received=BOOL, hello_sent=BOOL,
                      sock=('const', ('external',)))


NMB = "self.network_manager"


def _book_formula(eng, conn_t, disc_t, key_ty, cty, dty):
    from pyvc.types import to_sort, opt_sort
    k = z3.Const('bk!k', to_sort(key_ty, eng.reg))
    oc = opt_sort(to_sort(cty, eng.reg))
    od = opt_sort(to_sort(dty, eng.reg))
    return z3.ForAll([k], z3.Not(z3.And(oc.is_some(z3.Select(conn_t, k)), od.is_some(z3.Select(disc_t, k)))))


def disconnect_effect(eng, st, vals):
    """what LocalPeer.disconnect does to the peer book, for callers: the two maps of THE network manager may change, and a
    consistent book stays consistent (the post-condition verified for the function itself).  The network manager is the
    local peer's `network_manager`; when the caller is a method of the network manager whose `local_peer` shape does not
    spell that field out, it is the caller's own `self` (A-ALIAS: a LocalPeer and its NetworkManager refer to each other)."""
    from pyvc.engine import Ref
    lp = vals['self']
    h = st.heap[lp.loc] if isinstance(lp, Ref) else None
    nm = None
    caller = st.stack[-2] if len(st.stack) >= 2 else None
    cself = caller.vars.get('self') if caller is not None else None
    if isinstance(cself, Ref) and getattr(st.heap[cself.loc].cls, '__name__', '') == 'NetworkManager' \
            and isinstance(st.heap[cself.loc].fields.get('local_peer'), Ref) and isinstance(lp, Ref) \
            and st.heap[cself.loc].fields['local_peer'].loc == lp.loc:
        nm = cself                       # called as self.local_peer.disconnect(...) from the manager: its own book
        eng.assumptions_used.add('A-ALIAS')
    elif h is not None and h.fields and isinstance(h.fields.get('network_manager'), Ref):
        nm = h.fields['network_manager']
    if nm is None:
        raise Outside("LocalPeer.disconnect: cannot locate the network manager whose book it changes")
    nh = st.heap[nm.loc]
    cref, dref = nh.fields['connected_peers'], nh.fields['disconnected_peers']
    c0, d0 = st.heap[cref.loc].val, st.heap[dref.loc].val
    c1, d1 = eng.fresh('connected_peers', c0.ty, st), eng.fresh('disconnected_peers', d0.ty, st)
    st.heap[cref.loc].val, st.heap[dref.loc].val = c1, d1
    st.writes += 1
    st.assume(z3.Implies(_book_formula(eng, c0.t, d0.t, c0.ty.args[0], c0.ty.args[1], d0.ty.args[1]),
                         _book_formula(eng, c1.t, d1.t, c0.ty.args[0], c0.ty.args[1], d0.ty.args[1])))
    rp_ = vals.get('remote_peer')
    if isinstance(rp_, Ref) and st.heap[rp_.loc].fields and 'ban_score' in st.heap[rp_.loc].fields:
        b0 = st.heap[rp_.loc].fields['ban_score']
        b1 = eng.fresh('ban_score', INT, st)
        st.heap[rp_.loc].fields['ban_score'] = b1
        st.assume(z3.And(b1.t >= eng.term(b0, INT), b1.t <= eng.term(b0, INT) + 1))
        hr = st.heap[rp_.loc].fields.get('hello_received')
        if hr is not None:
            st.assume(z3.Implies(eng.b(eng.truth(hr, st)), b1.t == eng.term(b0, INT)))      # greeted peers are not penalised


@PB.contract("skepticoin.networking.local_peer.LocalPeer.disconnect#C19", props=["C19"])
def _(c):
    c.params(self=owner_shape(), remote_peer=peer_shape())
    c.let(conn0=NMB + ".connected_peers", disc0=NMB + ".disconnected_peers")
    # whatever happens while unregistering / closing / book-keeping: nothing escapes, and a consistent book stays consistent
    # (the failure counter of the peer is the subject of handle_peer_disconnected's own contract)
    c.ensures("implies(every(KEYT, lambda k: not (k in conn0 and k in disc0)), %s)" % (BOOK % {'s': NMB}),
              "old(remote_peer.ban_score) <= remote_peer.ban_score <= old(remote_peer.ban_score) + 1",
              "implies(remote_peer.hello_received, remote_peer.ban_score == old(remote_peer.ban_score))")
    c.no_raise()
    c.modifies(NMB + ".connected_peers", NMB + ".disconnected_peers", "remote_peer.ban_score")
    c.effect(disconnect_effect)


@PB.contract("skepticoin.networking.manager.NetworkManager.handle_peer_connected#C19", props=["C19"])
def _(c):
    c.params(self=book_shape(), remote_peer=peer_shape())
    c.let(key="(remote_peer.host, remote_peer.port, remote_peer.direction)", conn0="self.connected_peers",
          disc0="self.disconnected_peers")
    c.requires(BOOK % {'s': 'self'})
    c.ensures(BOOK % {'s': 'self'}, "key in self.connected_peers", "key not in self.disconnected_peers")
    # (it can raise only through the consistency check, i.e. never from a consistent book; whatever happens the book stays
    # consistent)
    c.on_raise(BOOK % {'s': 'self'})
    c.modifies("self.connected_peers", "self.disconnected_peers")


PNM = "self.local_peer.network_manager"


def hello_shape():
    import skepticoin.networking.messages as msg
    return StateShape(msg.HelloMessage, my_port=INT, nonce=INT, user_agent=BYTES)


@PB.contract("skepticoin.networking.remote_peer.ConnectedRemotePeer.handle_hello_message_received#C19", props=["C19"])
def _(c):
    c.params(self=connected_shape(), header=('const', ('opaque',)), message=hello_shape())
    c.let(conn0=PNM + ".connected_peers", disc0=PNM + ".disconnected_peers", mine0=PNM + ".my_addresses")
    c.requires(BOOK % {'s': PNM})
    c.ensures(
        # a greeting resets the count of consecutive failures
        "self.hello_received and self.ban_score == 0",
        BOOK % {'s': PNM},
        # a connection to this node itself (the greeting carries our own nonce) is recognised: the address is recorded as
        # our own (step() never dials an own address) and the connection is dropped through LocalPeer.disconnect
        "implies(self.direction == 'OUTGOING' and message.nonce == self.local_peer.nonce, "
        "(self.host, self.port) in %s.my_addresses)" % PNM,
        "every(ADDRT, lambda a: implies(a in mine0, a in %s.my_addresses))" % PNM)
    c.on_raise(BOOK % {'s': PNM})
    c.modifies("self.hello_received", "self.ban_score", PNM + ".connected_peers", PNM + ".disconnected_peers",
               PNM + ".my_addresses")


def peers_message_shape():
    import skepticoin.networking.messages as msg
    return StateShape(msg.PeersMessage, peers=LIST(CLS('Peer')))


@PB.contract("skepticoin.networking.remote_peer.ConnectedRemotePeer.handle_peers_message_received#C19", props=["C19"])
def _(c):
    c.params(self=StateShape(__import__('skepticoin.networking.remote_peer', fromlist=['x']).ConnectedRemotePeer,
                             local_peer=owner_shape(), host=STR, port=INT, direction=STR, ban_score=INT,
                             waiting_for_peers=BOOL),
             header=('const', ('opaque',)), message=peers_message_shape())
    c.let(conn0=PNM + ".connected_peers")
    c.requires(BOOK % {'s': PNM})
    # announced peers never disturb the book, and never touch the connected map
    c.ensures(BOOK % {'s': PNM}, "same(%s.connected_peers, conn0)" % PNM)
    c.on_raise(BOOK % {'s': PNM})
    c.modifies("self.waiting_for_peers", PNM + ".disconnected_peers")
    c.loop(0).invariant(BOOK % {'s': PNM}, "same(%s.connected_peers, conn0)" % PNM)


@PB.contract("skepticoin.networking.manager.NetworkManager.__init__#C19", props=["C19"])
def _(c):
    import skepticoin.networking.manager as m
    c.params(self=StateShape(m.NetworkManager), local_peer=('const', ('opaque',)), disk_interface=('const', ('opaque',)))
    # a new book is empty, hence consistent
    c.ensures("len(self.connected_peers) == 0 and len(self.disconnected_peers) == 0")
    c.modifies("self.local_peer", "self.my_addresses", "self.connected_peers", "self.disconnected_peers", "self.disk_interface")
