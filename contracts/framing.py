"""Contracts for MessageReceiver (C11): framing independent of transport fragmentation"""
from pyvc import *
from pyvc.spec import ContractSet
from .state import shapes

FR = ContractSet()
SH = shapes()

# the bytes received on this connection that have not been delivered yet, reconstructed from the receiver's fields
PENDING = "((MAGIC if %(r)s.magic_read else b'') + (G.pack4(%(r)s.len) if %(r)s.len is not None else b'') + %(r)s.buffer)"
# well-formed receiver: a length is only known after the magic, and it passed the limit check
WF = "implies(%(r)s.len is not None, %(r)s.magic_read and 0 <= %(r)s.len <= 33554432)"


@FR.contract("skepticoin.networking.remote_peer.MessageReceiver.handle_message_data", props=["C11"])
def _(c):
    c.params(self=SH['receiver'])
    c.ensures("same(GS.delivered, old(GS.delivered) + [message_data])")
    c.modifies("GS.delivered")
    c.no_raise()
    c.trust("delivery is abstracted by the ghost sequence GS.delivered; C11 is about WHICH payloads are delivered - a "
            "payload whose decoding or handling raises ends the connection (C20) and is modelled as delivered")


@FR.contract("skepticoin.networking.remote_peer.MessageReceiver.receive", props=["C11"])
def _(c):
    c.params(self=SH['receiver'], data=BYTES)
    c.let(s=PENDING % {'r': 'self'} + " + data", delivered0="GS.delivered")
    c.requires(WF % {'r': 'self'})
    # what is delivered and what stays pending depends only on the bytes: pending bytes + new chunk, parsed from the left
    c.ensures("G.parse_ok(s)",
              "same(GS.delivered, delivered0 + G.parse_delivered(s))",
              PENDING % {'r': 'self'} + " == G.parse_rest(s)",
              WF % {'r': 'self'})
    # refused exactly when the bytes contain a wrong magic or an over-limit length - after delivering what precedes it
    c.raises_only_if("not G.parse_ok(s)")
    c.on_raise("same(GS.delivered, delivered0 + G.parse_delivered(s))")
    c.modifies("self.buffer", "self.magic_read", "self.len", "GS.delivered")
