"""Contracts for skepticoin/mining.py (MinerWatcher handlers, C12) and the wallet functions they call"""
from pyvc import *
from pyvc.spec import ContractSet
from .state import shapes
from .manager import POOL_DISTINCT, POOL_VALID

MN = ContractSet()
SH = shapes()


def miner_shape():
    import skepticoin.mining as mining
    import skepticoin.wallet as w
    import skepticoin.networking.threading as th
    wallet = StateShape(w.Wallet,
                        keypairs=('mutable', 'dict', MAP(BYTES, BYTES)),
                        unused_public_keys=('mutable', 'list', LIST(BYTES)),
                        public_key_annotations=('mutable', 'dict', MAP(BYTES, STR)),
                        spent_transaction_outputs=('mutable', 'set', SET(CLS('OutputReference'))))
    thread = StateShape(th.NetworkingThread, local_peer=SH['full_local_peer'])
    candidate = TUPLE(CLS('BlockSummary'), INT, LIST(CLS('Transaction')))
    return StateShape(mining.MinerWatcher, network_thread=thread, wallet=wallet, coinstate=CLS('CoinState'),
                      mining_args=('mutable', 'dict', MAP(INT, candidate)), public_key=BYTES,
                      balance=('const', ('opaque',)), start_balance=('const', ('opaque',)),
                      hash_stats=('const', ('opaque',))), wallet


MINER, WALLET = miner_shape()
CM = "self.network_thread.local_peer.chain_manager"


@MN.contract("skepticoin.mining.MinerWatcher.increment_hash_counter", props=["C12"])
def _(c):
    c.params(self=MINER)
    c.no_raise()
    c.trust("hash-rate statistics and console output only")


@MN.contract("skepticoin.mining.MinerWatcher.send_message", props=["C12"])
def _(c):
    c.params(self=MINER)
    c.no_raise()
    c.trust("puts a tuple on the worker's multiprocessing queue; no node state involved")


@MN.contract("skepticoin.wallet.save_wallet", props=["C12"])
def _(c):
    c.params(wallet=WALLET)
    c.trust("file output (atomicity is C15); no chain state involved; may raise OSError")


@MN.contract("skepticoin.wallet.Wallet.get_annotated_public_key", props=["C12"])
def _(c):
    c.params(self=WALLET)
    c.returns(BYTES)
    c.modifies("self.unused_public_keys", "self.public_key_annotations")
    c.trust("hands out a wallet key (C15); touches only the wallet's key lists")


@MN.contract("skepticoin.wallet.Wallet.get_balance", props=["C12"])
def _(c):
    c.params(self=WALLET)
    c.returns(INT)
    c.trust("reporting only (C15)")


@MN.contract("skepticoin.networking.manager.ChainManager.get_state", props=["C12"])
def _(c):
    c.params(self=SH['chain_manager'])
    c.returns(TUPLE(CLS('CoinState'), LIST(CLS('Transaction'))))
    c.ensures("same(result[0], self.coinstate)", "same(result[1], self.transaction_pool)")
    c.no_raise()


@MN.contract("skepticoin.mining.MinerWatcher.handle_request_scrypt_input_message", props=["C12"])
def _(c):
    c.params(self=MINER, miner_id=INT, data=INT)
    c.let(cs="%s.coinstate" % CM, pool="%s.transaction_pool" % CM)
    c.let(head="cs.block_by_hash[cs.current_chain_hash]")
    c.requires("cs.current_chain_hash is not None and len(cs.current_chain_hash) == 32 and cs.current_chain_hash in cs.block_by_hash",
               "head.header.summary.height >= 0", "len(self.public_key) == 64")
    c.let(cand="self.mining_args[miner_id]")
    c.ensures(
        # the candidate is assembled from the node's current head and its current pool, for this miner's key
        "miner_id in self.mining_args",
        "same(self.coinstate, cs)",
        "G.candidate_built(cs, pool, SECP256k1PublicKey(self.public_key), self.mining_args[miner_id][0].timestamp, b'', data)",
        "same(self.mining_args[miner_id], construct_block_pow_evidence_input(cs, pool, SECP256k1PublicKey(self.public_key),"
        " self.mining_args[miner_id][0].timestamp, b'', data))",
        # its timestamp is later than its parent's whatever the clock says
        "self.mining_args[miner_id][0].timestamp > head.header.summary.timestamp",
        "self.mining_args[miner_id][0].timestamp == max(GS.now, head.header.summary.timestamp + 1)",
        # the reward pays exactly subsidy(height) + fees of the pending transactions to the miner's key
        "self.mining_args[miner_id][2][0].outputs[0].value == get_block_subsidy(self.mining_args[miner_id][1])"
        " + get_block_fees(pool, cs.unspent_transaction_outs_by_hash[cs.current_chain_hash])",
        "self.mining_args[miner_id][2][0].outputs[0].public_key.public_key == self.public_key",
        "self.mining_args[miner_id][1] == head.header.summary.height + 1 and self.mining_args[miner_id][0].height == self.mining_args[miner_id][1]")
    c.modifies("self.coinstate", "self.mining_args", "GS.now")


FOUND = "G.be(G.block_id_of(summary0, ev, txs0)) < G.be(summary0.target)"


@MN.contract("skepticoin.mining.MinerWatcher.handle_scrypt_output_message", props=["C12"])
def _(c):
    c.params(self=MINER, miner_id=INT, data=BYTES)
    c.let(cs0="self.coinstate", served0="%s.coinstate" % CM, pool0="%s.transaction_pool" % CM,
          disk0="G.store().disk", buffer0="G.store().write_buffer", relayed0="GS.relayed_blocks")
    c.let(summary0="self.mining_args[miner_id][0]", height0="self.mining_args[miner_id][1]", txs0="self.mining_args[miner_id][2]")
    c.let(ev="construct_pow_evidence_after_scrypt(data, cs0, summary0, height0, txs0)")
    c.let(block="Block(BlockHeader(summary0, ev), txs0)")
    c.requires("miner_id in self.mining_args", "len(summary0.target) == 32", "len(buffer0) == 0",
               "height0 >= 0", "len(data) == 32",
               POOL_DISTINCT % {'pool': 'pool0'},
               "all(G.tx_by_itself(pool0[j]) for j in range(len(pool0)))")
    won = "G.be(block.hash()) < G.be(summary0.target)"
    c.ensures(
        # a found block becomes part of the chain state the node serves, is committed to the store and is broadcast
        "implies(%s, same(%s.coinstate, cs0.add_block_no_validation(block)))" % (won, CM),
        "implies(%s, G.ok_itself(block, GS.now) and G.ok_in_state(block, cs0))" % won,
        "implies(%s, same(G.store().disk, disk0 + [block]) and len(G.store().write_buffer) == 0)" % won,
        "implies(%s, same(GS.relayed_blocks, relayed0 + [block]))" % won,
        "implies(%s, same(self.coinstate, %s.coinstate))" % (won, CM),
        # no winning hash: nothing changes
        "implies(not %s, same(%s.coinstate, served0) and same(G.store().disk, disk0) and same(GS.relayed_blocks, relayed0)"
        " and same(self.coinstate, cs0) and same(%s.transaction_pool, pool0))" % (won, CM, CM))
    # a block that fails the node's own validation is neither installed nor broadcast nor stored
    c.on_raise("same(%s.coinstate, served0) or (%s and same(%s.coinstate, cs0.add_block_no_validation(block)))" % (CM, won, CM))
    c.modifies("self.coinstate", "self.public_key", "self.balance", "%s.coinstate" % CM, "%s.transaction_pool" % CM,
               "%s.last_known_valid_coinstate" % CM, "G.store().write_buffer", "G.store().disk", "GS.relayed_blocks", "GS.now",
               "self.wallet.unused_public_keys", "self.wallet.public_key_annotations")
