"""Contracts for the relay path: block store buffer, broadcast, ConnectedRemotePeer.handle_block_received (C09, C20)"""
from pyvc import *
from pyvc.spec import ContractSet
from .state import shapes
from .manager import POOL_DISTINCT, POOL_VALID

NW = ContractSet()
SH = shapes()

# ---------------------------------------------------------------------------------------------------- block store

@NW.contract("skepticoin.blockstore.BlockStore.add_block_to_buffer", props=["C09", "C12", "C08"])
def _(c):
    c.params(self=SH['store'])
    c.ensures("same(self.write_buffer, old(self.write_buffer) + [block])")
    c.modifies("self.write_buffer")
    c.no_raise()


@NW.contract("skepticoin.blockstore.BlockStore.write_blocks_to_disk", props=["C09", "C12", "C08"])
def _(c):
    c.params(self=SH['store'], blocks=LIST(CLS('Block')))
    c.ensures("same(self.disk, old(self.disk) + blocks)")
    c.on_raise("same(self.disk, old(self.disk))")
    c.modifies("self.disk")
    c.trust("sqlite (A-SQL): one BEGIN..COMMIT is all-or-nothing and stores the rows of the given blocks; "
            "the write/read round trip is the bounded check of C08")


@NW.contract("skepticoin.blockstore.BlockStore.flush_blocks_to_disk", props=["C09", "C12", "C08"])
def _(c):
    c.params(self=SH['store'])
    c.ensures("same(self.disk, old(self.disk) + old(self.write_buffer))", "len(self.write_buffer) == 0")
    c.on_raise("same(self.disk, old(self.disk))", "same(self.write_buffer, old(self.write_buffer))")
    c.modifies("self.disk", "self.write_buffer")


# ---------------------------------------------------------------------------------------------------- relay

@NW.contract("skepticoin.networking.manager.NetworkManager.broadcast_block", props=["C09", "C12"])
def _(c):
    c.params(self=SH['network_manager'])
    c.ensures("same(GS.relayed_blocks, old(GS.relayed_blocks) + [block])")
    c.modifies("GS.relayed_blocks")
    c.trust("relay is abstracted by the ghost sequence GS.relayed_blocks (one entry per broadcast_block call); "
            "broadcast_message itself is covered by C20's containment contract")


@NW.contract("skepticoin.networking.manager.NetworkManager.broadcast_transaction", props=["C13", "C20"])
def _(c):
    c.params(self=SH['network_manager'])
    c.ensures("same(GS.relayed_transactions, old(GS.relayed_transactions) + [transaction])")
    c.modifies("GS.relayed_transactions")
    c.trust("relay is abstracted by the ghost sequence GS.relayed_transactions")


@NW.contract("skepticoin.networking.remote_peer.ConnectedRemotePeer.remove_from_inventory", props=["C09"])
def _(c):
    c.params(self=SH['remote_peer'])
    c.no_raise()
    c.trust("inventory bookkeeping of this connection only (bulk-download state, outside C09)")


CM = "self.local_peer.chain_manager"
STORE = "G.store()"
SAME_POOL = ("(all(G.member(pool0[j], %s.transaction_pool) for j in range(len(pool0)))"
             " and all(G.member(%s.transaction_pool[k], pool0) for k in range(len(%s.transaction_pool))))" % (CM, CM, CM))
UNCHANGED = ["same(%s.coinstate, prior)" % CM,
             SAME_POOL,         # the same pending transactions (the eviction filter re-run on an unchanged head keeps all)
             "same(%s.write_buffer, buffer0)" % STORE,
             "same(%s.disk, disk0)" % STORE,
             "same(GS.relayed_blocks, relayed0)",
             "same(%s.last_known_valid_coinstate, lkv0)" % CM]
ACCEPTED = ("(h not in prior.block_by_hash and prev in prior.block_by_hash"
            " and G.ok_itself(block, GS.now) and G.applies(prior, block) and G.ok_in_state(block, prior))")


@NW.contract("skepticoin.networking.remote_peer.ConnectedRemotePeer.handle_block_received", props=["C09", "C20"])
def _(c):
    c.params(self=SH['remote_peer'], header=SH['header'], message=SH['data_block'])
    c.let(block="message.data", prior="%s.coinstate" % CM, pool0="%s.transaction_pool" % CM,
          buffer0="%s.write_buffer" % STORE, disk0="%s.disk" % STORE, relayed0="GS.relayed_blocks",
          lkv0="%s.last_known_valid_coinstate" % CM)
    c.let(h="block.hash()", prev="block.header.summary.previous_block_hash")
    # delivery outside bulk download: unsolicited message, no unvalidated blocks pending, nothing buffered
    c.requires("header.in_response_to == 0",
               "lkv0 is not None and same(lkv0, prior)",
               "len(buffer0) == 0",
               "prior.current_chain_hash is not None and len(prior.current_chain_hash) == 32"
               " and prior.current_chain_hash in prior.block_by_hash",
               POOL_VALID % {'pool': 'pool0', 'cs': 'prior'},
               POOL_DISTINCT % {'pool': 'pool0'})
    new_state = "prior.add_block_no_validation(block)"
    c.ensures(
        # P1/P2: accepted  ==> in state, stored, relayed iff it is the new head
        "implies(%s, same(%s.coinstate, %s))" % (ACCEPTED, CM, new_state),
        "implies(%s, same(%s.disk, disk0 + [block]) and len(%s.write_buffer) == 0)" % (ACCEPTED, STORE, STORE),
        "implies(%s, same(GS.relayed_blocks, relayed0 + [block] if block == %s.head() else relayed0))" % (ACCEPTED, new_state),
        # P3/P4/P5: anything else (known id, unknown parent, any rejection) ==> nothing changes at all
        *["implies(not %s, %s)" % (ACCEPTED, u) for u in UNCHANGED])
    # an exception leaves either the accepted state or no trace
    c.on_raise(*["implies(same(%s.coinstate, prior), %s)" % (CM, u) for u in UNCHANGED[1:5]],
               "same(%s.coinstate, prior) or (%s and same(%s.coinstate, %s))" % (CM, ACCEPTED, CM, new_state))
    c.modifies("%s.coinstate" % CM, "%s.transaction_pool" % CM, "%s.last_known_valid_coinstate" % CM,
               "%s.write_buffer" % STORE, "%s.disk" % STORE, "GS.relayed_blocks", "GS.now")


@NW.contract("skepticoin.networking.remote_peer.ConnectedRemotePeer.handle_transaction_received", props=["C13", "C20"])
def _(c):
    c.params(self=SH['remote_peer'], header=SH['header'], message=SH['data_tx'])
    c.let(tx="message.data", pool0="%s.transaction_pool" % CM, cs="%s.coinstate" % CM, relayed0="GS.relayed_transactions")
    c.requires(POOL_VALID % {'pool': 'pool0', 'cs': 'cs'}, POOL_DISTINCT % {'pool': 'pool0'})
    c.ensures(
        # the pool either is what it was, or grew by exactly this transaction, which then is valid at the head
        "same(%s.transaction_pool, pool0) or (same(%s.transaction_pool, pool0 + [tx])"
        " and G.tx_by_itself(tx) and G.tx_in_state(tx, cs.current_chain_hash, cs))" % (CM, CM),
        # relayed exactly when admitted
        "same(GS.relayed_transactions, relayed0 + [tx] if len(%s.transaction_pool) == len(pool0) + 1 else relayed0)" % CM)
    c.always("same(%s.coinstate, cs)" % CM)
    # an exception (e.g. while relaying) leaves the pool as it was or grown by the valid transaction - never anything else
    c.on_raise("same(%s.transaction_pool, pool0) or (same(%s.transaction_pool, pool0 + [tx])"
               " and G.tx_by_itself(tx) and G.tx_in_state(tx, cs.current_chain_hash, cs))" % (CM, CM))
    c.modifies("%s.transaction_pool" % CM, "GS.relayed_transactions")


# ---------------------------------------------------------------------------------------------------- dispatch (C20)

for _h in ("handle_hello_message_received", "handle_get_blocks_message_received", "handle_inventory_message_received",
           "handle_get_data_message_received", "handle_data_message_received", "handle_get_peers_message_received",
           "handle_peers_message_received"):
    @NW.contract("skepticoin.networking.remote_peer.ConnectedRemotePeer." + _h, props=["C20"])
    def _(c):
        c.params(self=SH['remote_peer'], header=SH['header'], message=CLS('Message'),
                 get_data_message=CLS('Message'))
        c.modifies("self.hello_received", "self.ban_score")
        c.trust("message handler behind the dispatcher: may raise; what it can reach is bounded by C20.handler-frames")


@NW.contract("skepticoin.networking.remote_peer.ConnectedRemotePeer.handle_message_received", props=["C20"])
def _(c):
    c.params(self=SH['remote_peer'], header=SH['header'], message=CLS('Message'))
    # protocol order: before the peer has greeted, only a greeting is dispatched; anything else raises (and the
    # connection is dropped by the selector handler)
    c.ensures("isinstance(message, HelloMessage) or old(self.hello_received)")
    c.modifies("self.hello_received", "self.ban_score")
