"""Symbolic shapes of the node's mutable objects, the block-store singleton and the ghost state `GS`."""
from pyvc import *


class GhostState:
    """ghost state (exists only in contracts): blocks / transactions relayed so far, the last clock reading"""


def shapes():
    import skepticoin.networking.local_peer as lp      # first: the repository's modules import each other in a cycle
    import skepticoin.networking.manager as m
    import skepticoin.networking.disk_interface as di
    import skepticoin.networking.remote_peer as rp
    import skepticoin.networking.messages as msg
    import skepticoin.blockstore as bs
    disk = StateShape(di.DiskInterface)
    local_peer = StateShape(lp.LocalPeer, logger=('const', ('logger',)), disk_interface=disk)
    chain_manager = StateShape(
        m.ChainManager, local_peer=local_peer, lock=('const', ('lock',)), coinstate=CLS('CoinState'),
        transaction_pool=('mutable', 'list', LIST(CLS('Transaction'))),
        last_known_valid_coinstate=OPT(CLS('CoinState')), started_at=INT)
    network_manager = StateShape(m.NetworkManager, local_peer=('const', ('opaque',)))
    full_local_peer = StateShape(lp.LocalPeer, logger=('const', ('logger',)), disk_interface=disk,
                                 chain_manager=chain_manager, network_manager=network_manager, nonce=INT)
    remote_peer = StateShape(rp.ConnectedRemotePeer, local_peer=full_local_peer, host=STR, port=INT, direction=STR,
                             hello_received=BOOL, hello_sent=BOOL, ban_score=INT,
                             inventory_messages=('const', ('opaque',)))
    header = StateShape(msg.MessageHeader, version=INT, timestamp=INT, id=INT, in_response_to=INT, context=INT,
                        format=('const', ('opaque',)))
    data_block = StateShape(msg.DataMessage, data_type=BYTES, data=CLS('Block'))
    data_tx = StateShape(msg.DataMessage, data_type=BYTES, data=CLS('Transaction'))
    store = StateShape(bs.BlockStore, lock=('const', ('lock',)),
                       write_buffer=('mutable', 'list', LIST(CLS('Block'))),
                       disk=LIST(CLS('Block')))          # ghost field: the blocks committed to the database
    ghost = StateShape(GhostState, relayed_blocks=LIST(CLS('Block')), relayed_transactions=LIST(CLS('Transaction')), now=INT,
                       delivered=LIST(BYTES))     # payloads handed to MessageReceiver.handle_message_data, in order
    receiver = StateShape(rp.MessageReceiver, peer=('const', ('opaque',)), buffer=BYTES, magic_read=BOOL, len=OPT(INT))
    return dict(receiver=receiver, disk=disk, local_peer=local_peer, chain_manager=chain_manager, network_manager=network_manager,
                full_local_peer=full_local_peer, remote_peer=remote_peer, header=header, data_block=data_block,
                data_tx=data_tx, store=store, ghost=ghost)


def install(v):
    """block-store singleton and ghost state for a verifier"""
    import skepticoin.blockstore as bs
    sh = shapes()
    v.singletons[id(bs.DefaultBlockStore.instance)] = (bs.DefaultBlockStore.instance, sh['store'])
    v.ghost_shape = sh['ghost']
