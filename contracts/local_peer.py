"""Contracts for skepticoin/networking/local_peer.py: containment of per-connection failures (C20)"""
from pyvc import *
from pyvc.spec import ContractSet
from .state import shapes

LP = ContractSet()
SH = shapes()


def lp_shape():
    import skepticoin.networking.local_peer as lp
    import skepticoin.networking.manager as m
    import skepticoin.networking.remote_peer as rp
    nm = StateShape(m.NetworkManager, local_peer=('const', ('opaque',)))
    local = StateShape(lp.LocalPeer, logger=('const', ('logger',)), selector=('const', ('external',)), network_manager=nm,
                       running=BOOL)
    remote = StateShape(rp.ConnectedRemotePeer, host=STR, port=INT, direction=STR, sock=('const', ('external',)))

    class SelectorKey:
        pass
    key = StateShape(SelectorKey, fileobj=('const', ('external',)), data=remote)
    return local, remote, key, nm


LOCAL, REMOTE, KEY, NM = lp_shape()


@LP.contract("skepticoin.networking.manager.NetworkManager.handle_peer_disconnected", props=["C19", "C20"])
def _(c):
    c.params(self=NM, remote_peer=REMOTE)
    c.trust("peer-book bookkeeping (its own contract is C19); may raise")


@LP.contract("skepticoin.networking.local_peer.LocalPeer.disconnect", props=["C20", "C19"])
def _(c):
    c.params(self=LOCAL, remote_peer=REMOTE)
    # whatever unregistering / closing / bookkeeping does, nothing escapes
    c.no_raise()


@LP.contract("skepticoin.networking.remote_peer.ConnectedRemotePeer.handle_receive_data", props=["C20"])
def _(c):
    c.params(self=REMOTE)
    c.trust("per-connection processing of received bytes: may raise anything (framing C11, decoding C07, handlers C09/C13); "
            "what it may change is the subject of the handler-frame obligations of C20")


@LP.contract("skepticoin.networking.remote_peer.ConnectedRemotePeer.handle_can_send", props=["C20"])
def _(c):
    c.params(self=REMOTE)
    c.trust("writes queued bytes to this connection's socket; may raise OSError / ValueError")


@LP.contract("skepticoin.networking.local_peer.LocalPeer.handle_remote_peer_selector_event", props=["C20"])
def _(c):
    c.params(self=LOCAL, key=KEY, mask=INT)
    c.requires("mask >= 0")
    # no exception raised while serving one connection stops the event loop: every statement that can raise lies
    # inside the try, both handlers catch, and what the handlers themselves call cannot raise
    c.no_raise()
