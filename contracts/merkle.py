"""Contracts for skepticoin/merkletree.py (C17): get_merkle_root against the specification function mroot."""
from pyvc import *
from pyvc.spec import ContractSet

MK = ContractSet()


@MK.contract("skepticoin.merkletree.get_merkle_root", props=["C17", "C06"])
def _(c):
    c.params(list_of_hashes=LIST(BYTES))
    c.returns(BYTES)
    c.requires("len(list_of_hashes) >= 1")
    c.ensures("result == G.mroot(list_of_hashes)")
    c.no_raise()
    c.measure("len(list_of_hashes)")
    c.local(new_list=LIST(BYTES))
    # k-th chunk is list_of_hashes[2k:2k+2]; the next level is built entry by entry
    c.loop(0).index("k").invariant("new_list == G.mpair(list_of_hashes, k)", "len(new_list) == k")


@MK.contract("skepticoin.consensus.calc_merkle_root_hash#C17", props=["C17"])
def _(c):
    # the commitment in a header is the merkle root of the transaction ids, in block order
    c.requires("len(transactions) >= 1")
    c.ensures("result == G.mroot([t.hash() for t in transactions])")
    c.no_raise()
