"""Contracts for skepticoin/coinstate.py and balances.py"""
from pyvc import *
from pyvc.spec import ContractSet

ST = ContractSet()


@ST.contract("skepticoin.coinstate.CoinState.add_block_no_validation", props=["C03", "C04"])
def _(c):
    c.summary("apply_block")
    c.trust("placeholder while C03/C04 contracts are being built: the new state is a function of (state, block)")


@ST.contract("skepticoin.coinstate.CoinState.add_block", props=["C01", "C02", "C05"])
def _(c):
    # accepted  ==>  both validators returned normally, and the result is the state extended by the block
    c.ensures("G.ok_itself(block, current_timestamp)",
              "G.ok_in_state(block, self)",
              "result == self.add_block_no_validation(block)")
    # rejected ==> some validator (or the application) refused; `self` is a value object, any write to it on any path
    # is reported by the :frame obligation ("the chain state the node held before is left exactly as it was")
