"""Contracts for skepticoin/coinstate.py and balances.py"""
from pyvc import *
from pyvc.spec import ContractSet

ST = ContractSet()


# the whole view of the new state, field by field (the frame is part of it: every other entry is the old one)
NEW_STATE = [
    "result.block_by_hash == self.block_by_hash.set(h, block)",
    "result.unspent_transaction_outs_by_hash == self.unspent_transaction_outs_by_hash.set(h,"
    " uto_apply_block(ite(prev == ZERO32, EMPTY_UTXO, self.unspent_transaction_outs_by_hash[prev]), block))",
    "implies(prev != ZERO32, result.block_by_height_by_hash == self.block_by_height_by_hash.set(h,"
    " self.block_by_height_by_hash[prev].set(block.header.summary.height, block)))",
    "implies(prev == ZERO32, h in result.block_by_height_by_hash and result.block_by_height_by_hash[h] == EMPTY_MAP.set(0, block))",
    "result.heads == self.heads.delete(prev).set(h, block)",
    # fork choice as the statement has it: the head changes only for the first block, for a child of the head, or for
    # a block with strictly more total work (height) than the head
    "result.current_chain_hash == (h if (self.current_chain_hash is None or self.current_chain_hash == prev"
    " or block.header.summary.height > self.block_by_hash[self.current_chain_hash].header.summary.height)"
    " else self.current_chain_hash)",
    "result.public_key_balances_by_hash.block_by_hash == result.block_by_hash",
]


@ST.contract("skepticoin.coinstate.CoinState.add_block_no_validation", props=["C01", "C02", "C03", "C04"])
def _(c):
    c.summary("apply_block")
    c.predicate("applies", ["self", "block"])
    c.let(h="block.hash()", prev="block.header.summary.previous_block_hash")
    # no precondition: on a state that lacks the parent's entries the function raises KeyError (a rejection)
    c.ensures(*NEW_STATE)


@ST.contract("skepticoin.coinstate.CoinState.add_block", props=["C01", "C02", "C05"])
def _(c):
    # accepted  ==>  both validators returned normally, and the result is the state extended by the block
    c.ensures("G.ok_itself(block, current_timestamp)",
              "G.ok_in_state(block, self)",
              "result == self.add_block_no_validation(block)")
    # rejected ==> some validator (or the application) refused; `self` is a value object, any write to it on any path
    # is reported by the :frame obligation ("the chain state the node held before is left exactly as it was")




@ST.contract("skepticoin.balances.uto_apply_block", props=["C02", "C03"])
def _(c):
    c.summary("uto_block")
    c.returns(MAP(CLS('OutputReference'), CLS('Output')))
    c.trust("placeholder: the applied set is a function of (set, block); its definition is verified next")
