"""Contracts for skepticoin/coinstate.py and balances.py"""
from pyvc import *
from pyvc.spec import ContractSet

ST = ContractSet()


# the whole view of the new state, field by field (the frame is part of it: every other entry is the old one)
NEW_STATE = [
    "result.block_by_hash == self.block_by_hash.set(h, block)",
    "result.unspent_transaction_outs_by_hash == self.unspent_transaction_outs_by_hash.set(h,"
    " uto_apply_block(ite(prev == ZERO32, EMPTY_UTXO, self.unspent_transaction_outs_by_hash[prev]), block))",
    "implies(prev != ZERO32, result.block_by_height_by_hash == self.block_by_height_by_hash.set(h,"
    " self.block_by_height_by_hash[prev].set(block.header.summary.height, block)))",
    "implies(prev == ZERO32, h in result.block_by_height_by_hash and result.block_by_height_by_hash[h] == EMPTY_MAP.set(0, block))",
    "result.heads == self.heads.delete(prev).set(h, block)",
    # fork choice as the statement has it: the head changes only for the first block, for a child of the head, or for
    # a block with strictly more total work (height) than the head
    "result.current_chain_hash == (h if (self.current_chain_hash is None or self.current_chain_hash == prev"
    " or block.header.summary.height > self.block_by_hash[self.current_chain_hash].header.summary.height)"
    " else self.current_chain_hash)",
    "result.public_key_balances_by_hash.block_by_hash == result.block_by_hash",
]


@ST.contract("skepticoin.coinstate.CoinState.add_block_no_validation", props=["C01", "C02", "C03", "C04"])
def _(c):
    c.summary("apply_block")
    c.predicate("applies", ["self", "block"])
    c.let(h="block.hash()", prev="block.header.summary.previous_block_hash")
    # no precondition: on a state that lacks the parent's entries the function raises KeyError (a rejection)
    c.ensures(*NEW_STATE)


@ST.contract("skepticoin.coinstate.CoinState.add_block", props=["C01", "C02", "C05"])
def _(c):
    # accepted  ==>  both validators returned normally, and the result is the state extended by the block
    c.ensures("G.ok_itself(block, current_timestamp)",
              "G.ok_in_state(block, self)",
              "result == self.add_block_no_validation(block)")
    # rejected ==> some validator (or the application) refused; `self` is a value object, any write to it on any path
    # is reported by the :frame obligation ("the chain state the node held before is left exactly as it was")






UTXO_T = MAP(CLS('OutputReference'), CLS('Output'))
CREATED = "(r.hash == tid and 0 <= r.index < %s)"
UNSPENT = "not G.spent_in(r, ins, %s)"
KEPT = "(r in U and (is_coinbase or " + UNSPENT + "))"
AGREE = "all(same(W[x.output_reference], U[x.output_reference]) for x in ins%s)"


@ST.contract("skepticoin.balances.uto_apply_transaction", props=["C02", "C03"])
def _(c):
    c.params(unspent_transaction_outs=UTXO_T)
    c.summary("uto_tx")
    c.predicate("uto_tx_ok", ["unspent_transaction_outs", "transaction", "is_coinbase"])
    c.let(U="unspent_transaction_outs", ins="transaction.inputs", outs="transaction.outputs", tid="transaction.hash()",
          # values are never negative (in validated chains they are positive): the hypothesis of the total bound
          nn="every(OutputReference, lambda r: implies(r in unspent_transaction_outs, unspent_transaction_outs[r].value >= 0))"
             " and all(o.value >= 0 for o in transaction.outputs)")
    M = "mutable_unspent_transaction_outs"
    c.loop(0).invariant(
        "every(OutputReference, lambda r: (r in %s) == (r in U and %s))" % (M, UNSPENT % "i"),
        "every(OutputReference, lambda r: implies(r in %s, same(%s[r], U[r])))" % (M, M),
        # for ANY map W that agrees with U on the references spent so far (the caller's block-initial set)
        "every(UTXO_MAP, lambda W: implies(%s,"
        " G.total(%s) == G.total(U) - sum(W[x.output_reference].value for x in ins[:i])))" % (AGREE % "[:i]", M),
        "all(x.output_reference in U for x in ins[:i])")
    c.loop(1).invariant(
        "every(OutputReference, lambda r: (r in %s) == (%s or %s))" % (M, CREATED % "i", KEPT % "len(ins)"),
        "every(OutputReference, lambda r: implies(r in %s, same(%s[r], outs[r.index] if %s else U[r])))" % (M, M, CREATED % "i"),
        "implies(nn, every(OutputReference, lambda r: implies(r in %s, %s[r].value >= 0)))" % (M, M),
        "implies(nn, every(UTXO_MAP, lambda W: implies(is_coinbase or %s,"
        " G.total(%s) <= G.total(U) - (0 if is_coinbase else sum(W[x.output_reference].value for x in ins))"
        " + sum(o.value for o in outs[:i]))))" % (AGREE % "", M),
        "implies(not is_coinbase, all(x.output_reference in U for x in ins))")
    # the new set: created outputs, plus the old ones that were not spent; nothing else
    c.ensures(
        "every(OutputReference, lambda r: (r in result) == (%s or %s))" % (CREATED % "len(outs)", KEPT % "len(ins)"),
        "every(OutputReference, lambda r: implies(r in result, same(result[r], outs[r.index] if %s else U[r])))" % (CREATED % "len(outs)"),
        "implies(nn, every(OutputReference, lambda r: implies(r in result, result[r].value >= 0)))",
        # value: what leaves is the inputs' value, what enters is at most the outputs' value
        "implies(nn, every(UTXO_MAP, lambda W: implies(is_coinbase or %s,"
        " G.total(result) <= G.total(U) - (0 if is_coinbase else sum(W[x.output_reference].value for x in ins))"
        " + sum(o.value for o in outs))))" % (AGREE % ""),
        # normal return means every input was present when its turn came, i.e. present in U and not repeated
        "implies(not is_coinbase, all(x.output_reference in U for x in ins))")


@ST.contract("skepticoin.balances.uto_apply_block", props=["C02", "C03"])
def _(c):
    # code against a spec function: the block's unspent set is the left fold of uto_apply_transaction over the block's
    # transactions (reward first); G.uto_prefix is that fold as a ghost function (prefix recursion)
    c.params(unspent_transaction_outs=UTXO_T)
    c.summary("uto_block")
    c.predicate("uto_block_ok", ["unspent_transaction_outs", "block"])
    c.let(U0="unspent_transaction_outs", txs="block.transactions")
    c.loop(0).invariant(
        "same(unspent_transaction_outs, G.uto_prefix(U0, txs, i))",
        "all(G.uto_tx_ok(G.uto_prefix(U0, txs, j), txs[1 + j], False) for j in range(i))")
    c.ensures("len(txs) >= 1",
              "G.uto_tx_ok(U0, txs[0], True)",
              "all(G.uto_tx_ok(G.uto_prefix(U0, txs, j), txs[1 + j], False) for j in range(len(txs) - 1))",
              "same(result, G.uto_prefix(U0, txs, len(txs) - 1))")
