"""Contract sets of the skepticoin verification, the verification plan per property, replay hooks."""
import importlib
import json
import os

from pyvc import Verifier, Outside
from pyvc.spec import ContractSet

HOME = os.environ.get('VERIF_HOME', os.path.dirname(os.path.dirname(os.path.abspath(__file__))))

_MODULES = ['ghosts', 'merkle', 'wallet', 'peerbook', 'externals', 'datatypes', 'consensus', 'coinstate', 'manager', 'network', 'mining', 'pow', 'local_peer', 'framing', 'codec', 'lemmas']
_cset = None


def load():
    global _cset
    if _cset is None:
        cs = ContractSet()
        for m in _MODULES:
            mod = importlib.import_module('contracts.' + m)
            for v in vars(mod).values():
                if isinstance(v, ContractSet):
                    cs.update(v)
        _cset = cs
    return _cset


def make_verifier(seed=0, timeout_ms=20000):
    from .sk_types import build_registry, STRUCTURAL
    cs = load()
    v = Verifier(build_registry(), cs, timeout_ms=timeout_ms, seed=seed)
    v.structural_classes = set(STRUCTURAL)
    v.key_projection = {'Transaction': _tx_key}
    v.opaque_eq_classes = {'Block', 'Transaction', 'BlockHeader'}
    v.force_inline = {'skepticoin.serialization.stream_serialize_list', 'skepticoin.serialization.stream_deserialize_list'}
    from . import state
    state.install(v)
    return v


def _tx_key(eng, x, st):
    """sets / dicts of Transaction objects are keyed by the transaction id (python: __hash__ = hash(self.hash()); two
    objects with different ids are never identified, two with the same id are equal by A-HASH + C07)"""
    from pyvc.types import to_sort, BYTES_SORT
    from pyvc import CLS
    f = eng.uf('tx_id', to_sort(CLS('Transaction'), eng.reg), BYTES_SORT)
    eng.assumptions_used.add('A-KEY')
    return f(x.t)


# level / notes per property; functions and lemmas come from the props tags on the contracts
PROPS = {
    'C19': dict(level='proof', native=['native.c19'],
                explanation="the peer book's consistency (no address both connected and waiting) is proved as an invariant: "
                            "established by NetworkManager.__init__, preserved by every writer - handle_peer_connected, "
                            "handle_peer_disconnected, the greeting and the peer-announcement handlers, LocalPeer.disconnect - "
                            "each verified from source against it, with a scan that nothing else writes the two maps; "
                            "_sanity_check returns exactly when the book is consistent; the failure counter goes up by one "
                            "exactly when an outgoing connection ends without a greeting and is reset by a greeting; "
                            "is_time_to_connect against the spelled-out back-off schedule and limit; a greeting carrying our "
                            "own nonce records the address as our own. Structural scan: the retry gate in step(). Event "
                            "sequences over virtual time and the peer file are exercised by a bounded run (`bounded`)"),
    'C08': dict(level='exploration', native=['native.c08'],
                explanation="the statement is carried by a bounded run of the real BlockStore on real sqlite files (trees with "
                            "spends, forks, reorganisation; several flush batchings; reload by a new store after every flush), "
                            "hence level `exploration`; alongside, the buffer side proved from source (append / flush / failure "
                            "frame) and structural scans of the row construction (every field written and read back, INSERT "
                            "arity = schema, one transaction per flush). Known finding: the "
                            "same transaction in two stored fork blocks"),
    'C15': dict(level='proof', native=['native.c15'],
                explanation="contracts of the two key hand-out functions verified from source against the bookkeeping "
                            "invariant (unused keys distinct, none annotated, all with a key pair): the key handed out was "
                            "never handed out before and is not handed out again while unused keys remain; structure of "
                            "save_wallet (temporary file, then one atomic replace). File round trip, balance and crash "
                            "points are exercised by a bounded run (reported under `bounded`)"),
    'C14': dict(level='proof', native=['native.c14'],
                explanation="contracts of create_spend_transaction and sign_transaction verified from source (nested loops over "
                            "the wallet's keys and their unspent outputs with invariants; set update; external signing stub): "
                            "exact recipient output, exact change or none, inputs unspent / owned / not used before, record of "
                            "used outputs = old + inputs, unchanged on every failure. That the result passes the node's own "
                            "validation, and sequences of spends, are exercised by a bounded run (reported under `bounded`)"),
    'C18': dict(level='proof', native=['native.c18'],
                explanation="post-condition of validate_block_in_coinstate verified from source: at or below the horizon, at "
                            "a checkpointed height, it returns only for the checkpointed id (table pinned as consensus "
                            "data; horizon = highest checkpoint; entry 0 = genesis id); the built-in genesis block and the "
                            "recorded blocks are re-validated completely with the real scrypt on every run (exhaustive over "
                            "the recorded data, reported under `bounded`)"),
    'C06': dict(level='proof', native=['native.c06'],
                explanation="lemmas over the verified validator / evidence / codec contracts: two blocks accepted by full "
                            "validation on the same chain with the same header have the same encoding (the evidence commits "
                            "to the complete transaction list); same id implies same header; every field of every consensus "
                            "class is written by its encoder. That no single-bit neighbour or truncation of a valid block is "
                            "accepted rests on hash outputs and is exercised exhaustively per generated block by a bounded "
                            "sweep with the real decoder and validators (reported under `bounded`, not counted as proved)"),
    'C17': dict(level='proof', native=['native.c17'],
                explanation="get_merkle_root verified from source against the specification function mroot (loop invariant "
                            "over the next level, recursion through the function's own contract with a decreasing length); "
                            "Lean 4 lemma (re-checked every run) that mroot determines the ordered id list in the free hash "
                            "algebra; bounded correspondence of the two specification texts; the tree / inclusion-proof "
                            "functions are exercised for every length up to a bound and every position (reported under "
                            "`bounded`, not counted as proved)"),
    'C07': dict(level='proof', native=['native.c07'],
                explanation="per consensus class (8 classes, 2 tag dispatchers, the generic list codec inlined per element "
                            "class): the encoder appends exactly enc(self); whatever a decoder returns, re-encoding it gives "
                            "exactly the bytes consumed (one encoding per value); ids cached at decode time and the four id "
                            "functions are sha256d of that encoding (proof). The VLQ arithmetic, encode-then-decode equality, "
                            "wire messages and the sqlite store are exercised by a bounded run (reported under `bounded`, not "
                            "counted as proved)"),
    'C11': dict(level='proof', native=['native.c11'],
                explanation="MessageReceiver.receive against the framing specification parse(): delivered payloads and the "
                            "pending residue are a function of (pending bytes + chunk); the recursive call uses the "
                            "function's own contract; fragmentation independence is the extension lemma of parse"),
    'C20': dict(level='proof',
                explanation="exceptional post-condition 'nothing escapes' of the selector-event handler and of disconnect; "
                            "handler frames by reachability over the real AST; rejection paths of the two state-changing "
                            "handlers by their contracts (C09, C13)"),
    'C12': dict(level='proof', native=['native.c12'],
                explanation="contracts of the two MinerWatcher handlers and of the block-assembly functions (proof); that "
                            "an assembled block is never refused by the node's own validators is additionally exercised by "
                            "a bounded run of the real handlers (reported under `bounded`, not counted as proved)"),
    'C09': dict(level='proof',
                explanation="path contracts of ConnectedRemotePeer.handle_block_received over the chain manager, the block "
                            "store's write buffer, the committed blocks (ghost) and the relayed sequence (ghost)"),
    'C13': dict(level='proof',
                explanation="pool invariant (each pending transaction valid by itself and at the head; no output referenced "
                            "twice) as pre/post-condition of its three writers; admission appends exactly the transaction "
                            "or changes nothing; a head change keeps exactly the still-valid ones"),
    'C02': dict(level='proof', explanation="value post-conditions of the validators and of the unspent-set appliers"),
    'C03': dict(level='exploration', native=['native.c03'],
                explanation="PROOF part: whole-view post-condition of add_block_no_validation (every earlier entry is the old "
                            "one; no write to the state value), uto_apply_block as a fold of uto_apply_transaction, lemma "
                            "C03.replay (the set stored at a block is the fold along its own ancestors, for every arrival "
                            "order and fork shape). BOUNDED part (not a proof): per-key balances versus unspent sets and "
                            "immutability of balance maps obtained earlier, on enumerated trees with spends"),
    'C04': dict(level='proof',
                explanation="whole-view post-condition of CoinState.add_block_no_validation proved from source; lemma "
                            "C04.fork-choice: the representation invariant (ids, tree, head = first-seen of greatest height, "
                            "tips = childless stored blocks, by-height index = ancestors) holds for the empty state and "
                            "is preserved by every parent-before-child arrival (ghost arrival index and child witness)"),
    'C01': dict(level='proof',
                explanation="post-conditions of the validation functions (by-itself, in-coinstate, duplicate checks, "
                            "signature check, add_block) proved from their source for all inputs; lemma C01.accepted-block "
                            "derives the statement for every accepted block from those contracts"),
    'C05': dict(level='proof',
                explanation="header-rule post-conditions (proof of work as numeric comparison, retarget arithmetic, "
                            "target from the block's own ancestors, height, time) proved from source"),
    'C16': dict(level='proof',
                explanation="get_block_subsidy and validate_sashimi_range verified for all integers against the "
                            "documented schedule (era table by iterated halving); monotonicity, exhaustion and the "
                            "closed-form total are lemmas over that table; constants come from the imported "
                            "skepticoin.params and docs/params.md"),
}


def plan_for(prop):
    if prop not in PROPS:
        return None
    cs = load()
    cfg = PROPS[prop]
    functions = [q for q, c in cs.contracts.items() if prop in c.props and not c.trusted]
    trusted = ["%s (assumed: %s)" % (q, c.trusted_reason) for q, c in cs.contracts.items() if prop in c.props and c.trusted]
    lemmas = [n for (n, props, _f) in cs.lemmas if prop in props]
    native = list(cfg.get('native', []))
    return dict(cfg, functions=functions, trusted=trusted, lemmas=lemmas, native=native)


def describe_model(v, ob):
    """readable form of the solver's counterexample: values of the named symbolic inputs"""
    m = ob.model
    if m is None:
        return None
    out = {}
    try:
        for d in m.decls():
            n = d.name()
            if d.arity() == 0 and '!' in n and not n.startswith(('k!', 'q!', 'vi!', 'ci!', 'qi!')):
                s = str(m[d])
                out[n] = s if len(s) < 300 else s[:300] + '...'
    except Exception as e:       # describing a model must never break a run
        out['_error'] = str(e)
    return out


def known_findings(prop):
    p = os.path.join(HOME, 'known_findings.json')
    if not os.path.exists(p):
        return []
    return [k for k in json.load(open(p)).get('known', []) if k.get('property') == prop]


def replay_obligation(prop, name, bad, tier='quick', seed=0):
    """try to turn the verifier's counterexample into a failing run of the real code"""
    try:
        mod = importlib.import_module('replay.' + prop.lower())
    except ImportError:
        return {'failing_input_found': False, 'note': 'no replay harness for this property'}
    return mod.replay(name, bad, tier=tier, seed=seed)


def replay_file(prop, path):
    import replay
    return replay.run_file(prop, path, HOME)
    rep = replay_obligation(prop, rec.get('obligation', rec.get('name', '?')), rec.get('failing_paths', []))
    print("replay:", rep)
    return 1 if rep and rep.get('failing_input_found') else 0


# obligations of these units are discharged by several workers (each re-executes the unit, then takes its share)
ASSUMPTION_TEXT = {
    'A-HASH': "sha256d / blake2 / scrypt are total functions of their arguments with 32-byte results (injective only where a lemma states it as an explicit hypothesis)",
    'A-ECDSA': "ecdsa verification is a function of (key, signature, message); a signature made with a private key verifies under its public key; library errors may escape",
    'A-LEX': "for equal-length byte strings, Python's order is big-endian numeric order",
    'A-STRUCT': "struct.pack/unpack and int.to_bytes/from_bytes are inverse on the format's range (struct.error outside)",
    'A-IMMUT': "immutables.Map is a persistent finite map (set/delete/mutate do not alter the receiver)",
    'A-MAPSUM': "update laws of a sum over a finite map (set / delete change the sum by the difference)",
    'A-FRESH': "ids of a candidate block's transactions differ from ids of transactions in its ancestor chain",
    'A-KEY': "a wallet's key pairs are matching (public key of the stored private key)",
    'A-ENC': "serialize() is a function of the object; it raises when a field does not fit its wire format",
    'A-LOG': "logging, print and traceback formatting neither raise nor have relevant effects",
    'A-SOCK': "socket / selector calls return something unexamined or raise an exception of an unknown class",
    'A-SQL': "sqlite: a table is a map from primary key to row; one BEGIN..COMMIT is all-or-nothing",
    'A-IO': "BytesIO is a byte sequence with a cursor; read(n) returns at most n bytes",
    'A-ITER': "iterating a dict visits every key exactly once, in an unknown order; dicts are finite",
    'A-RENAME': "os.replace is atomic with respect to process crashes; a file closed by `with` holds everything written",
    'A-JSON': "json.dump/load and hexlify/unhexlify are inverse on the wallet's data",
    'A-DOMSEP': "a 32-byte id is never the hash of a 64-byte pair in play (free hash algebra, Lean lemma only)",
}

PARALLEL = {
    'skepticoin.networking.remote_peer.ConnectedRemotePeer.handle_block_received': 8,
    'skepticoin.balances.uto_apply_transaction': 6,
    'skepticoin.coinstate.CoinState.add_block_no_validation': 4,
    'skepticoin.networking.manager.ChainManager._cleanup_transaction_pool_for_coinstate': 3,
    'skepticoin.networking.manager.ChainManager.set_coinstate': 3,
    'skepticoin.networking.manager.ChainManager.add_transaction_to_pool': 3,
    'C02.apply-block-total': 3,
    'skepticoin.networking.remote_peer.MessageReceiver.receive': 12,
    'skepticoin.wallet.create_spend_transaction': 10,
}


def parallel_parts(kind, name):
    return PARALLEL.get(name, 1)
