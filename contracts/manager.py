"""Contracts for skepticoin/networking/manager.py (ChainManager pool, NetworkManager peer book)"""
from pyvc import *
from pyvc.spec import ContractSet
from pyvc.stmts import AnyException

MG = ContractSet()


from .state import shapes


# Inv-pool: every pending transaction passed the stand-alone rules and is valid in the ledger state of the current head;
# no output is referenced twice in the whole pool
POOL_VALID = ("all(G.tx_by_itself(%(pool)s[j]) and G.tx_in_state(%(pool)s[j], %(cs)s.current_chain_hash, %(cs)s)"
              " for j in range(len(%(pool)s)))")
POOL_DISTINCT = ("all(all(all(all((a2 == a and b2 == b) or %(pool)s[a].inputs[b].output_reference != %(pool)s[a2].inputs[b2].output_reference"
                 " for b2 in range(len(%(pool)s[a2].inputs))) for a2 in range(len(%(pool)s)))"
                 " for b in range(len(%(pool)s[a].inputs))) for a in range(len(%(pool)s)))")


@MG.contract("skepticoin.networking.disk_interface.DiskInterface.save_transaction_for_debugging", props=["C13"])
def _(c):
    c.trust("writes a debug copy under /tmp; no effect on node state; may raise OSError")


@MG.contract("skepticoin.networking.manager.ChainManager.add_transaction_to_pool", props=["C13"])
def _(c):
    c.params(self=shapes()['chain_manager'])
    c.let(pool0="self.transaction_pool", cs="self.coinstate")
    c.requires(POOL_VALID % {'pool': 'self.transaction_pool', 'cs': 'self.coinstate'},
               POOL_DISTINCT % {'pool': 'self.transaction_pool'})
    # admitted only if individually valid at the head and compatible with everything pending; appended, nothing else
    c.ensures("implies(result, G.tx_by_itself(transaction) and G.tx_in_state(transaction, cs.current_chain_hash, cs))",
              "implies(result, same(self.transaction_pool, pool0 + [transaction]))",
              "implies(not result, same(self.transaction_pool, pool0))",
              # the invariant is preserved
              POOL_VALID % {'pool': 'self.transaction_pool', 'cs': 'self.coinstate'},
              POOL_DISTINCT % {'pool': 'self.transaction_pool'})
    c.always("same(self.coinstate, cs)")
    c.on_raise("same(self.transaction_pool, pool0)")
    c.modifies("self.transaction_pool")


@MG.contract("skepticoin.networking.manager.ChainManager._cleanup_transaction_pool_for_coinstate", props=["C13"])
def _(c):
    c.params(self=shapes()['chain_manager'])
    c.let(pool0="self.transaction_pool", cs0="self.coinstate")
    c.requires("all(G.tx_by_itself(self.transaction_pool[j]) for j in range(len(self.transaction_pool)))",
               POOL_DISTINCT % {'pool': 'self.transaction_pool'})
    c.ensures(
        # evicts what is no longer valid at the (already installed) head ...
        POOL_VALID % {'pool': 'self.transaction_pool', 'cs': 'self.coinstate'},
        POOL_DISTINCT % {'pool': 'self.transaction_pool'},
        # ... and keeps everything that still is, in order
        "all(implies(G.tx_in_state(pool0[j], cs0.current_chain_hash, cs0), G.member(pool0[j], self.transaction_pool))"
        " for j in range(len(pool0)))",
        "all(G.member(self.transaction_pool[k], pool0) for k in range(len(self.transaction_pool)))")
    c.always("same(self.coinstate, cs0)")
    c.on_raise("same(self.transaction_pool, pool0)")
    c.raises_only_if("(not cs0.current_chain_hash) or not all(G.tx_in_state(pool0[j], cs0.current_chain_hash, cs0) for j in range(len(pool0)))")
    c.modifies("self.transaction_pool")


@MG.contract("skepticoin.networking.manager.ChainManager.set_coinstate", props=["C13"])
def _(c):
    c.params(self=shapes()['chain_manager'])
    c.let(pool0="self.transaction_pool")
    c.requires("all(G.tx_by_itself(self.transaction_pool[j]) for j in range(len(self.transaction_pool)))",
               POOL_DISTINCT % {'pool': 'self.transaction_pool'})
    c.ensures(
        "same(self.coinstate, coinstate)",
        POOL_VALID % {'pool': 'self.transaction_pool', 'cs': 'coinstate'},
        POOL_DISTINCT % {'pool': 'self.transaction_pool'},
        "all(implies(G.tx_in_state(pool0[j], coinstate.current_chain_hash, coinstate), G.member(pool0[j], self.transaction_pool))"
        " for j in range(len(pool0)))",
        "all(G.member(self.transaction_pool[k], pool0) for k in range(len(self.transaction_pool)))",
        "implies(validated, self.last_known_valid_coinstate is not None and same(self.last_known_valid_coinstate, coinstate))",
        "implies(not validated, same(self.last_known_valid_coinstate, old(self.last_known_valid_coinstate)))")
    c.on_raise("same(self.coinstate, coinstate)", "same(self.transaction_pool, pool0)",
               "same(self.last_known_valid_coinstate, old(self.last_known_valid_coinstate))")
    c.raises_only_if("(not coinstate.current_chain_hash) or not all(G.tx_in_state(pool0[j], coinstate.current_chain_hash, coinstate) for j in range(len(pool0)))")
    c.modifies("self.coinstate", "self.transaction_pool", "self.last_known_valid_coinstate")
