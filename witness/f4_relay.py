"""C09+C20 / F4: a delivered block whose application fails must not stay buffered for the block store."""
import os, sys
sys.path.insert(0, os.path.dirname(os.path.dirname(os.path.abspath(__file__))))
from native import chainlib, _common
_common.no_checkpoints()
import socket, time as _t
from skepticoin.networking.local_peer import LocalPeer
from skepticoin.networking.remote_peer import ConnectedRemotePeer, INCOMING
from skepticoin.networking.messages import MessageHeader, DataMessage, DATA_BLOCK
from skepticoin.blockstore import DefaultBlockStore
from skepticoin.datatypes import *
from skepticoin.signing import SECP256k1PublicKey, SECP256k1Signature, CoinbaseData
from skepticoin.consensus import construct_pow_evidence, calc_merkle_root_hash, construct_coinbase_transaction

w = chainlib.det_wallet(3)
now = int(_t.time())
cs = chainlib.chain(3, w, start_ts=now - 1000)
DefaultBlockStore.instance.write_blocks_to_disk(sorted(cs.block_by_hash.values(), key=lambda b: b.height))
lp = LocalPeer()
lp.chain_manager.set_coinstate(cs)
a, b = socket.socketpair()
peer = ConnectedRemotePeer(lp, "127.0.0.1", 1234, INCOMING, None, a, 0)
peer.hello_received = True

pk = SECP256k1PublicKey(list(w.keypairs)[0])
# a transaction spending an output that does not exist
ghost_spend = Transaction([Input(OutputReference(b"\x07" * 32, 0), SECP256k1Signature(b"\x01" * 64))], [Output(5, pk)])
head = cs.head()
height = head.height + 1
coinbase = Transaction([Input(OutputReference(b"\x00" * 32, 0), CoinbaseData(height, b""))], [Output(10 ** 9, pk)])
txs = [coinbase, ghost_spend]
summary = BlockSummary(height, cs.current_chain_hash, calc_merkle_root_hash(txs), now - 5, b"\xff" * 32, 0)
ev = construct_pow_evidence(cs, summary, height, txs)
block = Block(BlockHeader(summary, ev), txs)

bad = 0
try:
    peer.handle_block_received(MessageHeader(now, 1, 0, 0), DataMessage(DATA_BLOCK, block))
    print("handler returned")
except Exception as e:
    print("handler raised %s: %s" % (type(e).__name__, e))
buf = DefaultBlockStore.instance.write_buffer
if any(x.hash() == block.hash() for x in buf):
    bad = 1; print("REJECTED BLOCK LEFT IN THE STORE'S WRITE BUFFER")
if block.hash() in lp.chain_manager.coinstate.block_by_hash:
    bad = 1; print("REJECTED BLOCK IN CHAIN STATE")
try:
    DefaultBlockStore.instance.flush_blocks_to_disk()
except Exception as e:
    bad = 1; print("LATER FLUSH FAILS:", type(e).__name__, e)
if block.hash() in [x.hash() for x in DefaultBlockStore.instance.read_blocks_from_disk()]:
    bad = 1; print("REJECTED BLOCK REACHED THE STORE")
print("DEFECT" if bad else "OK")
raise SystemExit(1 if bad else 0)
