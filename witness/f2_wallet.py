"""C14 / F2: a failed create_spend_transaction must leave the wallet's record of used outputs unchanged,
so that a later affordable spend still succeeds."""
import os, sys
sys.path.insert(0, os.path.dirname(os.path.dirname(os.path.abspath(__file__))))
from native import chainlib
from skepticoin.wallet import create_spend_transaction
from skepticoin.signing import SECP256k1PublicKey
from skepticoin.params import SASHIMI_PER_COIN

w = chainlib.det_wallet(3)
cs = chainlib.chain(3, w)          # three rewards of 10 coin, one per key
other = chainlib.det_wallet(2, seed=9)
to, change = [SECP256k1PublicKey(k) for k in other.keypairs]
before = set(w.spent_transaction_outputs)
try:
    create_spend_transaction(w, cs, 31 * SASHIMI_PER_COIN, 0, to, change)
    print("unexpected success"); raise SystemExit(2)
except Exception as e:
    print("first attempt:", e)
bad = 0
if set(w.spent_transaction_outputs) != before:
    bad = 1
    print("RECORD CHANGED BY FAILED ATTEMPT:", len(w.spent_transaction_outputs), "outputs marked used")
try:
    t = create_spend_transaction(w, cs, 5 * SASHIMI_PER_COIN, 0, to, change)
    print("later affordable spend ok:", len(t.inputs), "inputs")
except Exception as e:
    bad = 1
    print("LATER AFFORDABLE SPEND FAILS:", e)
print("DEFECT" if bad else "OK")
raise SystemExit(1 if bad else 0)
