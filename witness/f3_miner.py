"""C12 / F3: a found block must become part of the chain state the node serves, be stored and be broadcast."""
import os, sys
sys.path.insert(0, os.path.dirname(os.path.dirname(os.path.abspath(__file__))))
from native import chainlib, _common
_common.no_checkpoints()
import time as _t
from skepticoin.mining import MinerWatcher
from skepticoin.networking.local_peer import LocalPeer
from skepticoin.blockstore import DefaultBlockStore
from skepticoin.consensus import construct_summary_hash
import skepticoin.mining as mining

w = chainlib.det_wallet(4)
now = int(_t.time())
cs = chainlib.chain(3, w, start_ts=now - 1000)

DefaultBlockStore.instance.write_blocks_to_disk(sorted(cs.block_by_hash.values(), key=lambda b: b.height))  # parents must be in the store (FK)
lp = LocalPeer()
lp.chain_manager.set_coinstate(cs)
relayed = []
lp.network_manager.broadcast_block = lambda b: relayed.append(b)

class NT: local_peer = lp
mw = object.__new__(MinerWatcher)
mw.network_thread = NT()
mw.wallet = w
mw.coinstate = cs
mw.mining_args = {}
mw.hash_stats = {}
mw.public_key = w.get_annotated_public_key("x")
mw.send_message = lambda *a: None
mw.print_stats_line = lambda ts: None
mining.save_wallet = lambda w: None

nonce = 0
while True:
    mw.handle_request_scrypt_input_message(0, nonce)
    summary, height, txs = mw.mining_args[0]
    sh = construct_summary_hash(summary, height)
    before = lp.chain_manager.coinstate
    mw.handle_scrypt_output_message(0, sh)
    if relayed or lp.chain_manager.coinstate is not before or mw.coinstate is not before:
        break
    nonce += 1
blk = relayed[0] if relayed else None
bad = 0
served = lp.chain_manager.coinstate
if blk is None:
    bad = 1; print("NOT BROADCAST")
else:
    if blk.hash() not in served.block_by_hash:
        bad = 1; print("FOUND BLOCK NOT IN THE CHAIN STATE THE NODE SERVES (head height %d, block height %d)" % (served.head().height, blk.height))
    elif served.current_chain_hash != blk.hash():
        bad = 1; print("FOUND BLOCK EXTENDS HEAD BUT IS NOT HEAD")
    stored = [b.hash() for b in DefaultBlockStore.instance.read_blocks_from_disk()]
    if blk.hash() not in stored:
        bad = 1; print("FOUND BLOCK NOT STORED")
print("DEFECT" if bad else "OK")
raise SystemExit(1 if bad else 0)
