"""C07 / F1: non-canonical VLQ prefixes decode; equal content then gets a different id."""
import os, sys
sys.path.insert(0, os.path.dirname(os.path.dirname(os.path.abspath(__file__))))
from native import _common
from io import BytesIO
from skepticoin.serialization import stream_deserialize_vlq, stream_serialize_vlq
from skepticoin.datatypes import Transaction, Block
from skepticoin.genesis import genesis_block_data

bad = 0
for enc in [bytes.fromhex("7f"), bytes.fromhex("8005"), bytes.fromhex("808005"), bytes.fromhex("40")]:
    try:
        v = stream_deserialize_vlq(BytesIO(enc))
    except Exception as e:
        print("rejected", enc.hex(), type(e).__name__); continue
    f = BytesIO(); stream_serialize_vlq(f, v)
    if f.getvalue() != enc:
        bad += 1
        print("NONCANONICAL accepted:", enc.hex(), "->", v, "re-encodes to", f.getvalue().hex())
g = Block.deserialize(genesis_block_data)
tx = g.transactions[0]
raw = tx.serialize()
# re-encode list length 1 as '80 01'
assert raw[1] == 1
alt = raw[:1] + b"\x80\x01" + raw[2:]
try:
    t2 = Transaction.deserialize(alt)
    if t2 == tx and t2.hash() != tx.hash():
        bad += 1
        print("SAME CONTENT, DIFFERENT ID:", tx.hash().hex()[:16], t2.hash().hex()[:16])
except Exception as e:
    print("alt tx rejected:", type(e).__name__, e)
# the encoder's own image must still decode
for i in list(range(0, 70000)) + [2**32-1, 2**35, 2**63, 2**64-1]:
    f = BytesIO(); stream_serialize_vlq(f, i); f.seek(0)
    assert stream_deserialize_vlq(f) == i, i
print("DEFECT" if bad else "OK")
raise SystemExit(1 if bad else 0)
