#!/usr/bin/env python3
"""Regenerates the table of section 11.6 of DESIGN.md from seeded/*/meta.json and seeded/RESULTS.json (written by
tools/run_seeded.py)."""
import json, os, re
HOME = os.path.dirname(os.path.dirname(os.path.abspath(__file__)))


def main():
    res = json.load(open(os.path.join(HOME, 'seeded', 'RESULTS.json')))
    rows = ["| change | what it does | exit | first report of the check |", "|---|---|---|---|"]
    for d in sorted(x for x in os.listdir(os.path.join(HOME, 'seeded')) if os.path.isdir(os.path.join(HOME, 'seeded', x))):
        m = json.load(open(os.path.join(HOME, 'seeded', d, 'meta.json')))
        title = m.get('needs_to_manifest', '').split('\n')[0]
        title = re.sub(r'^#\s*C\d+\s*/?\s*change \d+\s*[—-]\s*', '', title).strip().replace('|', '/')
        r = res.get(d)
        if r is None:
            rows.append("| %s | %s | not run | |" % (d, title[:110]))
            continue
        rep = r['first_report'].replace('|', '/').replace('\n', ' ')
        rep = re.sub(r'\s+', ' ', rep)[:170]
        rows.append("| %s | %s | %d | %s |" % (d, title[:110], r['exit'], rep))
    table = "\n".join(rows)
    p = os.path.join(HOME, 'DESIGN.md')
    s = open(p).read()
    a = s.index('<!-- SEEDED-TABLE-BEGIN -->')
    b = s.index('<!-- SEEDED-TABLE-END -->')
    s = s[:a] + '<!-- SEEDED-TABLE-BEGIN -->\n' + table + '\n' + s[b:]
    open(p, 'w').write(s)
    print(table)


if __name__ == '__main__':
    main()
