#!/usr/bin/env python3
"""Regenerates MANIFEST.json from the table below (kept here so that the manifest is always schema-valid)."""
import json, os, sys
HOME = os.path.dirname(os.path.dirname(os.path.abspath(__file__)))

BASELINE_CMD = "cd /repo && /venv/bin/python -m pytest -ra -q -p no:cacheprovider --timeout=900 --continue-on-collection-errors"

PROOF_TECH = "contract-based deductive verification: sidecar contracts on the real functions, VCs generated from the Python ast of /repo's working tree by a symbolic executor (pyvc), discharged by z3 (cvc5 as second solver)"

CHECKS = {
    'C01': dict(
        category='proof', design_ref='6/C01',
        text="Post-conditions of every validation function on the path of full validation (stand-alone transaction rules, "
             "duplicate-reference and duplicate-transaction checks, signature check, in-state transaction rules, both "
             "block validators, CoinState.add_block) are proved from the current source for all inputs, with loops cut "
             "by inductive invariants; lemma C01.accepted-block derives from these contracts that in every accepted "
             "block every non-reward input is in the parent's unspent set, verifies under the spent output's key over "
             "the signable form (all references, all outputs), is a real signature object, and that no reference occurs "
             "twice in the block. Rejection leaves the (immutable) state value untouched: any write is a failing :frame "
             "obligation.",
        note="Assumed: ECDSA verify is a function of (key, signature, message) (A-ECDSA); ids/encodings are functions of "
             "the object (defined under C07); A-FRESH for 'not created in the same block'; sets of transactions keyed by "
             "id (A-KEY); the executor's model of Python (DESIGN section 4).",
        technique=PROOF_TECH),
    'C02': dict(
        category='proof', design_ref='6/C02',
        text="Proved from source for all inputs: the value clauses of the validators (each output and the output total "
             "in (0, maximum], outputs <= inputs, reward <= subsidy(height) + fees with fees taken in the PARENT's unspent "
             "set), the exact effect of uto_apply_transaction on the unspent set (what is removed, what is added, and the "
             "bound on the total for any map agreeing on the spent references), uto_apply_block as the fold of it, and "
             "the whole-view post-condition of add_block_no_validation (the block's set is built from its parent's). "
             "Lemma C02.apply-block-total is an induction over the block's transactions (base and step machine-checked "
             "as structured proof steps); lemma C02.no-inflation concludes for every accepted block: total after <= "
             "total of parent + subsidy(height) <= cumulative schedule <= 2,099,999,986,350,000 (closed form, C16).",
        note="Assumed: update laws of a sum over a finite map (A-MAPSUM, instantiated on update chains); A-FRESH; A-ENC "
             "(serialize raises when an output value does not fit 8 bytes; codec obligations are C07); stored unspent "
             "sets hold non-negative values (preserved by clause (a) of the induction); the induction principles over "
             "the transactions of a block and over the chain.",
        technique=PROOF_TECH + "; structured lemma scripts with named premises"),
    'C03': dict(
        category='exploration', design_ref='6/C03',
        text="Two parts, reported separately in the evidence. PROOF (all inputs): the whole view of the state returned by "
             "add_block_no_validation - every earlier entry of every map is the old one, the new block's unspent set is "
             "uto_apply_block of its PARENT's set, no write to the state value; uto_apply_block is the fold of "
             "uto_apply_transaction; lemma C03.replay: the set stored at any block is the fold along that block's own "
             "ancestors whatever else is stored and in whatever order it arrived; the per-key balance index is a MEMO of a "
             "function of (stored blocks, block id): PublicKeyBalances.__getitem__ returns that function's value, only ever "
             "stores such values, and an entry that stays in the memo keeps its value. BOUNDED (exploration, not counted as "
             "proved): the per-key balances (sum and exact reference list) against the unspent sets, and immutability of "
             "balance maps and snapshots obtained earlier, evaluated with the real code on every tree shape up to the "
             "stated bound, with spends that differ between forks, in several arrival orders and query orders.",
        note="The recorded level is the weaker one because the balance-coherence sentence of the statement is only "
             "covered by the bounded part. Proof part assumes A-IMMUT and that block ids are functions of the block.",
        technique=PROOF_TECH + " for the unspent sets; bounded run-time contract evaluation for the per-key balances"),
    'C04': dict(
        category='proof', design_ref='6/C04',
        text="The whole view of the state returned by CoinState.add_block_no_validation (blocks, unspent sets, by-height "
             "index, tips, head) is proved from source, with the head rule taken from the statement (first block, child "
             "of the head, or strictly greater height). Lemma C04.fork-choice proves that the representation invariant "
             "- head = earliest-arrived stored block of greatest height (ghost arrival index), tips = stored blocks "
             "without stored child (ghost child witness), by-height index at k = heights 0..height(k) with k on top and "
             "the parent's index below - holds for the empty state and is preserved by every arrival whose parent is "
             "already stored. Holds for every tree and arrival order by induction over arrivals (base and step are the "
             "machine-checked part).",
        note="Assumed: immutables.Map is a persistent finite map (A-IMMUT); block ids are functions of the block and "
             "never the all-zero string; the induction principle over arrival sequences.",
        technique=PROOF_TECH + "; representation invariant with ghost state, proved pointwise"),
    'C05': dict(
        category='proof', design_ref='6/C05',
        text="Proved from source for all inputs: proof of work is the numeric comparison id < target (for 32-byte "
             "operands); the retarget arithmetic is exactly min(prev * elapsed // 1,209,600, 2^256-1) as 32 bytes; "
             "the target is unchanged inside a 10,080 period and at a boundary computed from the index stored at the "
             "block's own parent; height is parent+1 and equals the reward's height; timestamp is later than the "
             "parent's and at most 30 s ahead; the evidence equals the recomputation.",
        note="Assumed: Python bytes ordering on equal lengths is big-endian numeric order (A-LEX); int.from_bytes / "
             "to_bytes are inverse on range (A-STRUCT); hashes are functions (A-HASH).",
        technique=PROOF_TECH),
    'C08': dict(
        category='exploration', design_ref='6/C08',
        text="BOUNDED (exploration, not counted as proved): the real BlockStore on real sqlite files - block trees on top of "
             "the built-in genesis (line with multi-input/multi-output signed spends, fork with both branches continuing, "
             "a reorganisation, three siblings, and the same pending transaction in blocks of two forks), written in "
             "several batchings of flushes, the file re-opened by a NEW BlockStore after every flush: exactly the blocks "
             "written, under the same ids, byte-identical, every parent before its children, and the ledger rebuilt from "
             "the store has the same unspent set at every block as the in-memory state. Alongside (structural scans of the "
             "real source, lemma C08.columns): every field below Block is written to a column and read back into the same "
             "constructor argument, each INSERT's arity equals its table's column count, one BEGIN..COMMIT per flush. Proved "
             "from source (the buffer side): add_block_to_buffer appends exactly the block; flush_blocks_to_disk hands "
             "exactly the buffered blocks, in arrival order, to ONE write and empties the buffer, and leaves buffer and store "
             "as they were when the write fails.",
        note="sqlite itself is assumed (A-SQL). Known finding (recorded, not repaired): when two stored fork blocks contain "
             "the same transaction, the second reads back without it (transaction_locator is keyed by the transaction id "
             "alone + INSERT OR IGNORE); the check prints KNOWN-FINDING for exactly that case and reports any other "
             "difference as a violation. No contract within reach expresses sqlite's semantics, so no proof is claimed.",
        technique="bounded run-time evaluation of the real store against an in-memory reference (stated bound) + structural "
                  "scan obligations over the real source"),
    'C09': dict(
        category='proof', design_ref='6/C09',
        text="ConnectedRemotePeer.handle_block_received is verified path by path (from source, callee contracts for the "
             "validators, the appliers, the pool, the block store buffer and the broadcast) for a delivery outside bulk "
             "download: the block becomes part of the chain state only when both validators returned and it applied; then "
             "it is committed to the store (ghost: the committed sequence grows by exactly this block, the buffer is "
             "empty) and appended to the relayed sequence iff it equals the new head; a known id, an unknown parent or "
             "any rejection changes nothing: chain state, buffer, committed blocks, relayed sequence, fallback state are "
             "the same values and the pool holds the same transactions; an exception leaves either the accepted state "
             "or no trace. Every write outside the declared frame is a failing :frame obligation.",
        note="Assumed: sqlite commits a flush atomically (A-SQL, contract of write_blocks_to_disk; round trip = C08 bounded "
             "check); relay is abstracted by one ghost entry per broadcast_block call; inventory bookkeeping "
             "(remove_from_inventory) is trusted to touch only this connection; schedules are not modelled. 'Repeated "
             "delivery has no effect' is the known-id path.",
        technique=PROOF_TECH + "; path contracts over ghost state (committed blocks, relayed sequence)"),
    'C06': dict(
        category='proof', design_ref='6/C06',
        text="Proved as lemmas over contracts that are themselves verified in the same run (validate_block_in_coinstate, "
             "construct_pow_evidence*, the codecs): (a) two blocks that pass full validation on the same chain state and "
             "have the same header have the same ENCODING - the header's evidence equals the recomputation, whose block_hash "
             "is blake2(summary_hash + chain_sample + serialize_list(transactions)), and serialize_list is the list codec's "
             "bytes, the tail of the block's encoding - so no alteration confined to the transaction part of an accepted "
             "block is accepted; with C07 RT2 (different accepted bytes decode to different values) any accepted alteration "
             "must change the header; (b) same id implies same header; (c) every field of every consensus class is written "
             "by its stream_serialize (scan of the real classes). Bounded (not proof): for every generated fully valid block "
             "(one with signed spends), EVERY single-bit flip and EVERY truncation of its encoding is decoded by the real "
             "decoder and offered to the real CoinState.add_block on the same parent: never accepted.",
        note="Assumed (as explicit hypotheses of the lemmas, on exactly the terms involved): blake2 and sha256d are "
             "injective (collision resistance, A-HASH); the header encoding is injective (follows from encode-then-decode, "
             "which C07 only exercises). That a changed header does not happen to satisfy the proof-of-work relations is "
             "not a first-order fact: it is what the bounded sweep exercises (scrypt replaced by sha256 and checkpoint "
             "horizon disabled in the sweeping process only).",
        technique=PROOF_TECH + "; lemmas over validator and codec contracts + bounded exhaustive-per-block bit-flip/truncation sweep"),
    'C07': dict(
        category='proof', design_ref='6/C07',
        text="Proved from source for the eight consensus classes (OutputReference, Input, Output, Transaction, PowEvidence, "
             "BlockSummary, BlockHeader, Block), the three signature kinds, the public key and the two tag dispatchers: "
             "(SER) stream_serialize appends exactly enc(self), where enc is DEFINED by running that very method on an empty "
             "stream; (RT2) whatever stream_deserialize returns, re-encoding it gives exactly the bytes it consumed - for "
             "every byte string, cursor position and trailing data, so each value has a single accepted encoding (altered "
             "tags, other version bytes and lengths that do not match cannot be accepted without failing this); the generic "
             "list codec is verified where it is inlined, once per element class, with a loop invariant over the encoded "
             "prefix; (ID) Transaction / Block.stream_deserialize cache sha256d of exactly the consumed bytes (of the "
             "header's bytes for a block), so with RT2 the cached id is sha256d of the canonical encoding, and the four "
             "hash() functions return sha256d(serialize()) / the cached id under that invariant; (RT1) encode-then-decode for "
             "the loop-free classes (OutputReference, PowEvidence, the public key, the three signature kinds, Output, Input "
             "with each signature kind, BlockSummary, BlockHeader): the REAL decoder body is executed on prefix + enc(x) + "
             "rest for an arbitrary value x the encoder accepts and returns x with the cursor exactly behind enc(x), without "
             "raising (for the two classes containing a height, relative to the VLQ pair's trusted read-back clause). "
             "Bounded (not proof): the "
             "VLQ arithmetic (ranges, all 7-bit boundaries, all strings up to 2 bytes and structured longer ones), "
             "encode-then-decode equality for all consensus and wire-message classes on generated values, edited encodings, "
             "and ids of objects read back from a fresh sqlite store.",
        note="Assumed: the two VLQ functions are summarised by vlq(i) = the bytes the encoder writes (their arithmetic is "
             "only checked by the bounded part); struct.pack/unpack and int.to_bytes/from_bytes are inverse on their ranges "
             "(A-STRUCT); BytesIO is a byte sequence with a cursor (A-IO); sha256d is a function (A-HASH); serialize() "
             "returns what stream_serialize writes to a fresh stream. Encode-then-decode of the two classes containing a list "
             "(Transaction, Block) and of the wire messages is NOT proved, only exercised.",
        technique=PROOF_TECH + "; encoder against a spec function defined by the code itself, decoder post-condition, loop "
                  "invariants for the list codec; bounded companion for VLQ / RT1 / messages / store"),
    'C17': dict(
        category='proof', design_ref='6/C17',
        text="get_merkle_root is verified from source against the specification function mroot ([x] -> x; l -> mroot of the "
             "next level, where neighbours are hashed pairwise and an odd last entry is promoted unchanged): loop invariant "
             "'new_list is the first k entries of the next level', the recursive call through the function's own contract, "
             "termination by the decreasing length, no IndexError; calc_merkle_root_hash returns mroot of the transaction "
             "ids in block order. lean/Merkle.lean (Lean 4 core, re-checked by the kernel on every run) proves for the same "
             "equations, over a free hash algebra, that mroot determines the ordered id list for lists of ANY length "
             "(root_injective), so substituting, reordering, removing, appending or duplicating entries - duplicating the "
             "last one in particular (duplicate_last_changes) - changes the commitment unless the list is identical. The "
             "two specification texts (SMT ghost axioms, Lean definitions) are tied together by machine-checked unfolding "
             "for 1..9 entries. Bounded (not proof): get_merkle_tree / get_proof for every length up to a bound and every "
             "position (proof reproduces the root and contains the leaf), structural edits with the real hash.",
        note="Assumed: sha256d of a concatenation behaves as a free constructor (A-HASH injective, A-DOMSEP: a 32-byte id is "
             "never the hash of a 64-byte pair in play) - in the Lean lemma only; the code-to-spec step needs sha256d to be "
             "a function only. MerkleNode (recursive objects) is outside the executor's value classes: tree / inclusion "
             "proofs are bounded only.",
        technique=PROOF_TECH + "; function against a recursive specification function, Lean 4 lemma over the specification, "
                  "bounded companion for the recursive tree objects"),
    'C11': dict(
        category='proof', design_ref='6/C11',
        text="MessageReceiver.receive is verified from source, path by path (44 path obligations), against a framing "
             "specification parse(): for a receiver whose not-yet-delivered bytes are `pending` (reconstructed from its three "
             "fields) and any chunk, what is handed to the message handler is exactly parse_delivered(pending + chunk), "
             "what stays pending is parse_rest(pending + chunk), and it raises exactly when parse refuses (wrong magic / "
             "over-limit length) - after delivering what precedes the refusal point; the recursive call is used through "
             "the function's own contract. Lemma C11.extension (induction over the frames of a, base and step "
             "machine-checked) shows parse(a + b) = parse(a)'s deliveries followed by parse(residue(a) + b), and that a "
             "refusal in a is a refusal in a + b after the same deliveries. Together (induction over the chunks): the "
             "delivered sequence is parse(c1 + c2 + ...) for EVERY way of cutting the stream, of every length.",
        note="Assumed: struct.unpack('>I') and the 4-byte encoder are inverse (A-STRUCT); a message handler that raises ends "
             "the connection (C20) and is modelled as having received its payload. Sequence terms are normalised by the "
             "executor (slice-of-slice, slices of concatenations) under entailment checks against the path condition.",
        technique=PROOF_TECH + "; function against a recursive specification function + extension lemma"),
    'C12': dict(
        category='proof', design_ref='6/C12',
        text="Proved from source: the candidate the miner assembles is built from the node's current head and pool; its "
             "height is head+1 and equals the reward's height; its timestamp is max(clock, head.timestamp+1), hence later "
             "than its parent's for every clock value; its target is calc_target with exactly the arguments the validator "
             "uses; its reward has one output worth exactly subsidy(height) + fees(pool, head's unspent set), paid to the "
             "miner's key. For a winning hash the found-block handler returns only after CoinState.add_block validated "
             "the block, installs THAT state in the chain manager (it then contains the block), commits the block to "
             "the store and appends it to the relayed sequence; for a losing hash nothing changes; on an exception the "
             "served state is either the old one or the validated new one. The evidence recomputed by the validator is "
             "the same function of the same arguments as the miner's (construct_pow_evidence = after_scrypt o scrypt).",
        note="'Passes the node's own full validation' is proved in the direction 'what was installed was validated'; that "
             "the validators never refuse an assembled block (for admissible pools, clock within 30 s) is covered by the "
             "bounded run of the real handlers reported under coverage.bounded, not by proof. The miner worker is "
             "assumed to return scrypt(summary, height). Interleavings with the networking thread between the two "
             "handler calls are not modelled.",
        technique=PROOF_TECH + "; plus a bounded run of the real handlers for the 'never refused' direction"),
    'C13': dict(
        category='proof', design_ref='6/C13',
        text="The pool invariant - every pending transaction passed the stand-alone rules and is valid in the ledger "
             "state of the current head, and no output is referenced twice in the pool - is a pre/post-condition of the "
             "pool's writers, proved from source: add_transaction_to_pool appends exactly the transaction when all three "
             "validators return, and changes nothing otherwise (also on an exception that is not caught); set_coinstate / "
             "_cleanup keep exactly the transactions still valid at the new head, in order, and evict the rest. A "
             "repository-wide scan shows that nothing else writes the pool or installs a chain state in the manager, and "
             "that the public writers touch the guarded fields only under the manager's lock.",
        note="Schedules are not modelled: each call is verified as atomic (it holds the manager's lock for its whole body - "
             "checked structurally). Validators are used through their contracts (C01/C02). A validator raising an "
             "exception other than ValidateTransactionError during a head change propagates; nothing is claimed for "
             "that path.",
        technique=PROOF_TECH + "; data-structure invariant over its writers + writer scan"),
    'C18': dict(
        category='proof', design_ref='6/C18',
        text="Proved from source: validate_block_in_coinstate returns normally for a block at a height h <= 163000 that is "
             "one of the 327 pinned checkpoint heights ONLY IF block.hash() equals the pinned checkpoint for h (post-"
             "condition over all blocks and chain states; the table lookup and the hex decoding are executed symbolically "
             "over the real table). Lemma C18.table: no pinned entry is changed or removed, nothing is inserted below the "
             "pinned maximum, the horizon constant is the highest checkpointed height and is not lowered, entry 0 is the id "
             "recomputed from the built-in genesis bytes. Evaluation on recorded data (exhaustive over it): the genesis "
             "block and the 5 recorded real blocks decode, re-encode byte-identically, keep their recorded ids and pass "
             "FULL validation on top of each other with the real scrypt (horizon lifted in the checking process only); "
             "every checkpointed height is probed on the real validator with the right id and two wrong ids.",
        note="The checkpoint table is consensus data pinned in contracts/checkpoints_pinned.json (entries above the pinned "
             "maximum are reported as not verifiable, not as violations). Only 5 recorded blocks ship with the repository; "
             "'the real network's blocks stay valid' is decided for those and the genesis block, not for the rest of the "
             "real chain. Below the horizon the node skips in-chain validation by design; that is not part of the claim.",
        technique=PROOF_TECH + "; branch post-condition over a constant table + run-time evaluation of the real validators "
                  "on the recorded blocks with real scrypt"),
    'C19': dict(
        category='proof', design_ref='6/C19',
        text="Proved from source. (1) BOOK - no key is in both connected_peers and disconnected_peers - is an invariant of the "
             "program: NetworkManager.__init__ creates two empty maps; handle_peer_connected, handle_peer_disconnected, "
             "the greeting handler, the peer-announcement handler (loop invariant over the announced peers) and "
             "LocalPeer.disconnect each return - and each raise - with BOOK, given BOOK before; a scan shows no other code "
             "writes the two maps; _sanity_check (loop over the keys) returns exactly when BOOK holds, so from a consistent "
             "book it never raises: the condition that would stop the network loop is unreachable. (2) The count k of "
             "consecutive failures: handle_peer_disconnected removes the peer from the connected map and, for an OUTGOING "
             "peer, files a record with k+1 iff the connection ended without a greeting (k unchanged otherwise), keeping "
             "host, port and the time of the last attempt; a greeting sets k to 0. (3) is_time_to_connect returns True only "
             "if k <= 2880 and at least min(10 s * 2^k, 30 min) - spelled out 10, 20, ..., 1280, 1800 - passed since the "
             "last attempt, and does return True then. (4) A greeting with this node's own nonce on an outgoing connection "
             "records (host, port) as an own address and drops the connection through LocalPeer.disconnect. Structural scan: "
             "step() starts an outgoing connection only for an OUTGOING peer whose address is not an own address and for "
             "which is_time_to_connect holds, after recording the attempt time. Bounded (not proof): event sequences with a "
             "virtual clock on the real objects, and write_peers (valid JSON, <= 100 entries, most recent first, old-or-new "
             "file under simulated crashes).",
        note="Assumed: a LocalPeer and its NetworkManager refer to each other (A-ALIAS: a call self.local_peer.disconnect(...) "
             "made by the manager changes that very manager's book); the connected map holds peer objects as opaque ids; "
             "announced addresses are records of the two attributes the handler reads; sockets/selectors are external stubs "
             "(A-SOCK); iteration over a dict (A-ITER). step() itself (it mutates waiting records in place through the "
             "map) is only scanned, and the peer file is only exercised.",
        technique=PROOF_TECH + "; data-structure invariant as pre/post-condition (also exceptional) of all its writers + writer "
                  "scan; bounded event-sequence companion"),
    'C20': dict(
        category='proof', design_ref='6/C20',
        text="Exceptional post-condition, proved from source: no exception of any class escapes "
             "LocalPeer.handle_remote_peer_selector_event (every raising statement is inside the try, both handlers catch, "
             "and LocalPeer.disconnect - verified too - cannot raise), so malformed input can at most end in a "
             "disconnect of that peer. What per-connection code may change: a reachability analysis over the real AST "
             "shows that only the block and the transaction handler (and the dispatchers above them) can reach an "
             "operation on chain state, pool or block store; their contracts (C09, C13, verified in this check as well) "
             "say that every rejecting or raising path leaves those unchanged; all decoders and the framing code mention "
             "no node state at all; unknown message types and a non-Hello first message raise.",
        note="Exceptions outside per-connection handling (accepting a connection, manager steps) are not driven by peer "
             "input and not covered. 'Other connections unaffected' is by frame: handlers write only their own "
             "connection's fields, the peer book (C19) and the objects named above. Sockets/selectors are externals that "
             "may raise anything (A-SOCK); logging is total (A-LOG).",
        technique=PROOF_TECH + "; exceptional post-condition + structural frame/reachability obligations"),
    'C14': dict(
        category='proof', design_ref='6/C14',
        text="Proved from source, for every wallet, chain state, positive amount and non-negative fee: when "
             "create_spend_transaction returns, its first output pays exactly the amount to the recipient; the inputs' "
             "total T (sum over the spent outputs, carried through both loops by an invariant and through signing by "
             "sign_transaction's contract) is >= amount + fee; there is exactly one more output paying T - amount - fee "
             "to the change key when that is non-zero and none when it is zero; every input references an output that is "
             "unspent at the head, pays a key of this wallet and is not in the wallet's record of used outputs; afterwards "
             "the record contains the old record and these inputs; on EVERY exceptional outcome (insufficient funds, "
             "signing errors) the record is unchanged and nothing else of the wallet is written (frame). sign_transaction "
             "keeps every reference and the outputs, signs each input over the signable form with the private key the wallet "
             "holds for the spent output's key, and preserves the spent total. Bounded (not proof): sequences of spends and "
             "failed attempts on generated ledger states checked with the node's own transaction validators.",
        note="Assumed: the per-key balance index lists only unspent outputs paying that key (C03 coherence: a PRECONDITION "
             "of the contract, explored boundedly under C03); iteration over a dict visits keys (A-ITER); ecdsa signing is "
             "an external stub (A-ECDSA). That the returned transaction passes the node's validation (signatures verify, "
             "inputs distinct) is exercised, not proved. Known finding (recorded, not repaired): a spend needing more than "
             "about 1,979 inputs yields a transaction above MAX_BLOCK_SIZE.",
        technique=PROOF_TECH + "; nested loop invariants with lifted sums, intermediate assertion at the signing call, "
                  "exceptional post-condition / frame for the failure paths; bounded companion with the real validators"),
    'C15': dict(
        category='proof', design_ref='6/C15',
        text="Proved from source against the wallet's bookkeeping invariant INV (the unused keys are pairwise distinct, none "
             "of them carries an annotation, each has a key pair): get_annotated_public_key, while unused keys remain, "
             "returns the last unused key, which carries no annotation before (was not handed out), annotates it and removes "
             "it from the unused list, changes no other annotation and re-establishes INV - so by induction over any sequence "
             "of hand-outs and restores no key is handed out twice while unused keys remain; with none left it returns some "
             "key of the wallet and records nothing; restore_annotated_public_key removes exactly that annotation, appends "
             "the key and re-establishes INV. Lemma C15.save-structure (scan of the real save_wallet): only a temporary file "
             "is opened for writing, inside a `with`, followed by one os.replace onto wallet.json. Bounded (not proof): "
             "dump/load round trip, hand-out sequences across save/load, balance against the head's unspent outputs, and a "
             "simulated crash at every open/partial-write/rename boundary of save_wallet.",
        note="Assumed: os.replace is atomic with respect to process crashes and a file closed by `with` is complete "
             "(A-RENAME); json.dump/load and hexlify/unhexlify are inverse (A-JSON, exercised by the bounded part); "
             "random.choice returns an element of its argument. The balance clause depends on C03 coherence and is only "
             "exercised.",
        technique=PROOF_TECH + "; data-structure invariant as pre/post-condition of its writers + structural scan + bounded "
                  "crash-point simulation"),
    'C16': dict(
        category='proof', design_ref='6/C16',
        text="For every height (all integers >= 0, no enumeration): get_block_subsidy equals the documented schedule "
             "(10 coin halved by integer division once per 1,050,000 blocks); the schedule never increases, is zero "
             "after 30 eras, sums to exactly 2,099,999,986,350,000 = params.MAX_SASHIMI = the figure in docs/params.md; "
             "validate_sashimi_range accepts exactly (0, that maximum]. All obligations are discharged by z3 from the "
             "current source text.",
        note="Trusted: the executor's encoding of Python integer arithmetic (floor division, ** expanded over the "
             "proved exponent range 0..63), the import of skepticoin.params for constant values, z3.",
        technique=PROOF_TECH + "; closed-form sum over the era table"),
}

NOT_APPLICABLE = {
    'C10': "multi-node convergence under every interleaving is a liveness/protocol property; no single-call contract or "
           "single-node invariant expresses it (DESIGN.md section 6, C10); the relay-at-most-once clause for blocks is "
           "decided under C09",
}

NOT_YET = "not claimed yet: its contracts are still being built (see DESIGN.md build order)"


def main():
    props = [json.loads(l)['id'] for l in open(os.path.join(HOME, 'properties.jsonl'))]
    checks = []
    for pid in props:
        if pid not in CHECKS:
            continue
        c = CHECKS[pid]
        checks.append({
            'property_id': pid,
            'quick_cmd': "./check %s --tier quick" % pid,
            'thorough_cmd': "./check %s --tier thorough" % pid,
            'evidence_file': "evidence/%s.json" % pid,
            'replay_cmd_template': "./check %s --replay {path}" % pid,
            'engine': 'pyvc',
            'level_claimed': {'category': c['category'], 'text': c['text'], 'design_ref': c['design_ref']},
            'level_note': c['note'],
            'technique': c['technique'],
        })
    na = []
    for pid in props:
        if pid in CHECKS:
            continue
        na.append({'property_id': pid, 'reason': NOT_APPLICABLE.get(pid, NOT_YET)})
    m = {
        'version': 1,
        'setup_cmd': './setup.sh',
        'hooks': {
            'guard': 'SKEPTICOIN_VERIF',
            'enable': 'no source hooks: contracts are sidecars under /verif/contracts; the real functions are re-read '
                      'from /repo on every run (VERIF_REPO overrides the path)',
            'baseline_off_cmd': BASELINE_CMD,
            'source_commits': [],
            'add_only': True,
        },
        'engines': [{'name': 'pyvc', 'path': 'pyvc/', 'serves_properties': sorted(CHECKS),
                     'kind_free_text': 'symbolic executor over the Python ast of the real functions + sidecar contracts '
                                       '-> verification conditions -> z3 / cvc5; Lean 4 for spec-level lemmas'}],
        'checks': checks,
        'not_applicable': na,
        'notes': "fix: commits in /repo (genuine defects repaired): 0a4f2e3 (C07 VLQ), 0f2feee (C14 wallet), c072b88 (C12 "
                 "miner), aedd880 (C09/C20 relay buffer). Known findings recorded, not repaired (known_findings.json; the checks "
                 "print KNOWN-FINDING for exactly these and exit 0): C14 oversize-spend (a spend needing more than ~1,979 inputs "
                 "exceeds MAX_BLOCK_SIZE), C08 shared-transaction (the same transaction in two stored fork blocks: the second "
                 "reads back without it). DESIGN.md section 11 describes what is proved, what is only exercised, the "
                 "assumptions, the false alarms met and the seeded changes. tools/run_all.sh runs every check; "
                 "tools/run_seeded.py and tools/selftest.py exercise the checks against edits of skepticoin.",
    }
    json.dump(m, open(os.path.join(HOME, 'MANIFEST.json'), 'w'), indent=1)
    try:
        import jsonschema
        jsonschema.validate(m, json.load(open('/root/.vp/MANIFEST.schema.json')))
        print("MANIFEST.json valid: %d checks, %d not claimed" % (len(checks), len(na)))
    except ImportError:
        print("written (jsonschema not available to validate)")


if __name__ == '__main__':
    main()
