#!/bin/sh
# runs every registered check in sequence (quick tier unless VERIF_TIER is set); prints one line per check
cd "$(dirname "$0")/.."
for p in $(python3 -c "import json;print(' '.join(c['property_id'] for c in json.load(open('MANIFEST.json'))['checks']))"); do
  s=$(date +%s)
  out=$(./check $p "$@" 2>&1); rc=$?
  e=$(date +%s)
  echo "$p rc=$rc $((e-s))s $(echo "$out" | grep -E "^C[0-9]+ \[" | head -1)"
  echo "$out" | grep -E "VIOLATION|CHECKER|FAILED|KNOWN-FINDING" | cut -c1-220
done
