#!/usr/bin/env python3
"""Apply each seeded change to /repo, run the check of its property, undo it straight afterwards; print a table.
usage: tools/run_seeded.py [C01 C02 ...] [--tier quick]"""
import json, os, subprocess, sys, time
HOME = os.path.dirname(os.path.dirname(os.path.abspath(__file__)))
REPO = '/repo'


def main():
    want = [a for a in sys.argv[1:] if not a.startswith('--')]
    tier = 'quick'
    if '--tier' in sys.argv:
        tier = sys.argv[sys.argv.index('--tier') + 1]
    claimed = {c['property_id'] for c in json.load(open(os.path.join(HOME, 'MANIFEST.json')))['checks']}
    assert subprocess.run(['git', '-C', REPO, 'status', '--porcelain'], capture_output=True, text=True).stdout.strip() == '', "/repo not clean"
    rows = []
    import shutil, tempfile
    keep = tempfile.mkdtemp(prefix='evidence-keep-')
    shutil.copytree(os.path.join(HOME, 'evidence'), os.path.join(keep, 'evidence'))
    try:
        _run(want, tier, claimed, rows)
    finally:
        # evidence files written while a seeded change was applied must never be committed
        shutil.rmtree(os.path.join(HOME, 'evidence'))
        shutil.copytree(os.path.join(keep, 'evidence'), os.path.join(HOME, 'evidence'))
        shutil.rmtree(keep)
    for row in rows:
        print("%-8s %-12s %5.1fs  %s" % (row[0], row[1], row[3], row[2]))
    # remember the outcome of every run (seeded/RESULTS.json: what DESIGN.md's table is generated from)
    rp = os.path.join(HOME, 'seeded', 'RESULTS.json')
    res = json.load(open(rp)) if os.path.exists(rp) else {}
    for row in rows:
        if row[1].startswith('exit='):
            res[row[0]] = {'exit': int(row[1][5:]), 'first_report': row[2], 'seconds': round(row[3], 1), 'tier': tier,
                           'violation_lines': row[4] if len(row) > 4 else []}
    json.dump(res, open(rp, 'w'), indent=1, sort_keys=True)


def _run(want, tier, claimed, rows):
    for d in sorted(os.listdir(os.path.join(HOME, 'seeded'))):
        pid = d.split('-')[0]
        if want and pid not in want and d not in want:
            continue
        if pid not in claimed:
            rows.append((d, 'unclaimed', '', 0))
            continue
        patch = os.path.join(HOME, 'seeded', d, 'patch.diff')
        r = subprocess.run(['git', '-C', REPO, 'apply', patch], capture_output=True, text=True)
        if r.returncode != 0:
            rows.append((d, 'apply-failed', r.stderr.strip()[:80], 0))
            continue
        t = time.time()
        try:
            c = subprocess.run([os.path.join(HOME, 'check'), pid, '--tier', tier], capture_output=True, text=True, cwd=HOME, timeout=3600)
            vio = [l for l in c.stdout.splitlines() if l.startswith('VIOLATION')]
            fail = [l.strip() for l in c.stdout.splitlines() if l.strip().startswith('FAILED')]
            chk = [l for l in c.stderr.splitlines() if l.startswith('CHECKER')]
            first = fail[0] if fail else (chk[0] if chk else '')
            if not fail and vio:
                # a bounded companion found a failing input: say what it saw
                try:
                    rp_ = vio[0].split('replay=')[1].split()[0]
                    what = json.load(open(os.path.join(HOME, rp_))).get('what') or []
                    first = "bounded: " + str(what[0] if what else rp_)
                except Exception:
                    first = vio[0]
            rows.append((d, 'exit=%d' % c.returncode, first[:220], time.time() - t, vio[:3]))
        finally:
            subprocess.run(['git', '-C', REPO, 'checkout', '--', '.'])
            subprocess.run(['git', '-C', REPO, 'clean', '-fdq'])


if __name__ == '__main__':
    main()
