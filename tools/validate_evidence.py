#!/usr/bin/env python3
import json, glob, os, sys
import jsonschema
HOME = os.path.dirname(os.path.dirname(os.path.abspath(__file__)))
schema = json.load(open('/root/.vp/EVIDENCE.schema.json'))
bad = 0
for f in sorted(glob.glob(os.path.join(HOME, 'evidence', '*.json'))):
    e = json.load(open(f))
    try:
        jsonschema.validate(e, schema)
        c = e['coverage']
        ok = e['level'] != 'proof' or c.get('obligations') == c.get('discharged')
        print("%s %-12s obligations=%s discharged=%s violations=%s %s" % (e['property_id'], e['level'], c.get('obligations'), c.get('discharged'), e.get('violations'), '' if ok else 'MISMATCH'))
        bad += 0 if ok and not e.get('violations') else 1
    except jsonschema.ValidationError as ex:
        print(f, 'INVALID', ex.message[:200]); bad += 1
sys.exit(1 if bad else 0)
