#!/usr/bin/env python3
"""Self-test of the checks against hand-made edits of skepticoin, on a scratch clone of /repo (never on /repo itself):
edits that break a property must be reported (exit 1), edits that keep it must pass (exit 0) - the second kind guards
against contracts that demand more than the property states.  usage: tools/selftest.py [name-substring]

The scratch clone lives under $TMPDIR and is removed at the end."""
import os, shutil, subprocess, sys, tempfile, time
HOME = os.path.dirname(os.path.dirname(os.path.abspath(__file__)))

CASES = [
    # (name, property, file, old text, new text, expected exit code)
    ("subsidy cut off at era 20", "C16", "skepticoin/consensus.py", "    if halvings >= 64:", "    if halvings >= 20:", 1),
    ("output value decoded as signed", "C07", "skepticoin/datatypes.py",
     '(value,) = struct.unpack(b">Q", safe_read(f, 8))', '(value,) = struct.unpack(b">q", safe_read(f, 8))', 1),
    ("block id cached over the whole block", "C07", "skepticoin/datatypes.py",
     "        hash = sha256d(f.read(end_position - start_position))\n        transactions = stream_deserialize_list(f, Transaction)",
     "        transactions = stream_deserialize_list(f, Transaction)\n        end_position = f.tell()\n        f.seek(start_position)\n"
     "        hash = sha256d(f.read(end_position - start_position))", 1),
    ("checkpoint test inverted", "C18", "skepticoin/consensus.py",
     "if block.hash() != computer(KNOWN_HASHES[block.height]):", "if block.hash() == computer(KNOWN_HASHES[block.height]):", 1),
    ("merkle: odd last entry hashed with itself", "C17", "skepticoin/merkletree.py",
     "            new_list.append(chunk[0])\n\n    return get_merkle_root(new_list)",
     "            new_list.append(sha256d(chunk[0] + chunk[0]))\n\n    return get_merkle_root(new_list)", 1),
    ("hand-out does not remove the key", "C15", "skepticoin/wallet.py",
     "public_key = self.unused_public_keys.pop()", "public_key = self.unused_public_keys[-1]", 1),
    ("back-off doubles from 5 s", "C19", "skepticoin/networking/params.py",
     "TIME_TO_SECOND_CONNECTION_ATTEMPT = 10", "TIME_TO_SECOND_CONNECTION_ATTEMPT = 5", 1),
    # ---- edits that keep the property: must NOT be reported
    ("harmless: hand out the FIRST unused key", "C15", "skepticoin/wallet.py",
     "public_key = self.unused_public_keys.pop()", "public_key = self.unused_public_keys.pop(0)", 0),
    ("harmless: restored key goes to the front", "C15", "skepticoin/wallet.py",
     "self.unused_public_keys.append(public_key)", "self.unused_public_keys.insert(0, public_key)", 0),
    ("harmless: subsidy written with a shift", "C16", "skepticoin/consensus.py",
     "    return INITIAL_SUBSIDY // (2 ** halvings)  # type: ignore", "    return INITIAL_SUBSIDY >> halvings", 0),
    ("harmless: id of the new block computed first", "C04", "skepticoin/coinstate.py",
     "        if block.previous_block_hash == b'\\00' * 32:\n            unspent_transaction_outs: immutables.Map[OutputReference, Output] = immutables.Map()",
     "        block_hash = block.hash()\n        if block.previous_block_hash == b'\\00' * 32:\n            unspent_transaction_outs: immutables.Map[OutputReference, Output] = immutables.Map()", 0),
    ("harmless: ledger check before the stand-alone check", "C13", "skepticoin/networking/manager.py",
     "                validate_non_coinbase_transaction_by_itself(transaction)\n\n                assert self.coinstate.current_chain_hash\n\n"
     "                validate_non_coinbase_transaction_in_coinstate(\n                    transaction, self.coinstate.current_chain_hash, self.coinstate)",
     "                assert self.coinstate.current_chain_hash\n\n"
     "                validate_non_coinbase_transaction_in_coinstate(\n                    transaction, self.coinstate.current_chain_hash, self.coinstate)\n"
     "                validate_non_coinbase_transaction_by_itself(transaction)", 0),
    ("harmless: extra log line in the connect handler", "C19", "skepticoin/networking/manager.py",
     "        key = (remote_peer.host, remote_peer.port, remote_peer.direction)\n        if key in self.connected_peers:",
     "        key = (remote_peer.host, remote_peer.port, remote_peer.direction)\n        self.local_peer.logger.info('peer %s' % (key,))\n        if key in self.connected_peers:", 0),
    ("harmless: spent outputs recorded through a loop", "C14", "skepticoin/wallet.py",
     "                wallet.spent_transaction_outputs.update(input.output_reference for input in inputs)",
     "                wallet.spent_transaction_outputs.update([input.output_reference for input in inputs])", 0),
    ("harmless: future-timestamp check before proof-of-work", "C05", "skepticoin/consensus.py",
     "    validate_proof_of_work(block_header.hash(), block_header.summary.target)\n\n"
     "    if block_header.summary.timestamp > current_timestamp + MAX_FUTURE_BLOCK_TIME:\n"
     "        raise ValidateBlockHeaderError(\"Block timestamp in the future\")",
     "    if block_header.summary.timestamp > current_timestamp + MAX_FUTURE_BLOCK_TIME:\n"
     "        raise ValidateBlockHeaderError(\"Block timestamp in the future\")\n\n"
     "    validate_proof_of_work(block_header.hash(), block_header.summary.target)", 0),
    ("harmless: spent output looked up once more", "C01", "skepticoin/consensus.py",
     "        previous_output = unspent_transaction_outs[input.output_reference]\n\n        # bitcoin has the concept",
     "        previous_output = coinstate.unspent_transaction_outs_by_hash[at_hash][input.output_reference]\n\n        # bitcoin has the concept", 0),
    ("harmless: balance memo emptied before a new entry", "C03", "skepticoin/balances.py",
     "        if key not in self.cache:\n            self.cache[key] = self.public_key_balances_by_hash(key)",
     "        if key not in self.cache:\n            self.cache.clear()\n            self.cache[key] = self.public_key_balances_by_hash(key)", 0),
    ("balance memo returns a stale entry of another block", "C03", "skepticoin/balances.py",
     "        if key not in self.cache:\n            self.cache[key] = self.public_key_balances_by_hash(key)\n        return self.cache[key]",
     "        if len(self.cache) == 0:\n            self.cache[key] = self.public_key_balances_by_hash(key)\n        return self.cache.get(key) or next(iter(self.cache.values()))", 1),
    ("harmless: merkle pairs hashed via a helper variable", "C17", "skepticoin/merkletree.py",
     "            new_list.append(sha256d(chunk[0] + chunk[1]))",
     "            pair = chunk[0] + chunk[1]\n            new_list.append(sha256d(pair))", 0),
]


def main():
    want = sys.argv[1] if len(sys.argv) > 1 else ''
    d = tempfile.mkdtemp(prefix='skv-selftest-')
    clone = os.path.join(d, 'repo')
    keep = os.path.join(d, 'evidence-keep')
    bad = 0
    try:
        subprocess.run(['git', 'clone', '-q', '/repo', clone], check=True)
        shutil.copytree(os.path.join(HOME, 'evidence'), keep)
        for name, prop, path, old, new, expect in CASES:
            if want and want not in name and want != prop:
                continue
            p = os.path.join(clone, path)
            src = open(p).read()
            if src.count(old) < 1:
                print("%-48s %s  SKIPPED (pattern not found in the current source)" % (name, prop))
                continue
            open(p, 'w').write(src.replace(old, new, 1))
            t = time.time()
            try:
                r = subprocess.run([os.path.join(HOME, 'check'), prop], capture_output=True, text=True, cwd=HOME,
                                   env=dict(os.environ, VERIF_REPO=clone), timeout=3600)
            finally:
                open(p, 'w').write(src)
            ok = r.returncode == expect
            bad += 0 if ok else 1
            first = [l.strip() for l in r.stdout.splitlines() if l.strip().startswith(('FAILED', 'VIOLATION'))]
            print("%-48s %s  exit=%d (expected %d) %5.1fs  %s  %s" % (name, prop, r.returncode, expect, time.time() - t,
                                                                      'ok' if ok else 'UNEXPECTED', (first[0][:110] if first else '')))
    finally:
        # evidence written while an edit was applied must not stay
        if os.path.isdir(keep):
            shutil.rmtree(os.path.join(HOME, 'evidence'))
            shutil.copytree(keep, os.path.join(HOME, 'evidence'))
        shutil.rmtree(d, ignore_errors=True)
    return 1 if bad else 0


if __name__ == '__main__':
    sys.exit(main())
