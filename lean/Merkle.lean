/-
C17, lemma over the specification function (Lean 4 core only, checked on every run of ./check C17).

The contract of `get_merkle_root` (contracts/merkle.py, ghosts mroot / mpair) says that the code computes

    mroot [x]   = x
    mroot l     = mroot (pairUp l)                    for 2 ≤ length l
    pairUp (x :: y :: t) = H x y :: pairUp t ,  pairUp [x] = [x] ,  pairUp [] = []

where `mpair l k` of the contract is the first k entries of `pairUp l` (prefix recursion) and H x y = sha256d (x ++ y).
Here the hash is modelled as a FREE algebra (A-HASH injective + A-DOMSEP: a leaf id is never the hash of a pair):
in that model the commitment determines the ordered list of ids, for lists of any length.  Hence substituting,
reordering, removing, appending or duplicating an entry (duplicating the last one included) changes the commitment
unless the list is unchanged.
-/

inductive H where
  | leaf : Nat → H
  | node : H → H → H
deriving DecidableEq

namespace Merkle

def pairUp : List H → List H
  | [] => []
  | [x] => [x]
  | x :: y :: t => H.node x y :: pairUp t

def flatten : H → List Nat
  | .leaf n => [n]
  | .node l r => flatten l ++ flatten r

def flat : List H → List Nat
  | [] => []
  | h :: t => flatten h ++ flat t

theorem pairUp_flat : (l : List H) → flat (pairUp l) = flat l
  | [] => rfl
  | [_] => rfl
  | x :: y :: t => by
      simp [pairUp, flat, flatten, pairUp_flat t, List.append_assoc]

theorem pairUp_length_le : (l : List H) → (pairUp l).length ≤ l.length
  | [] => Nat.le_refl _
  | [_] => Nat.le_refl _
  | _ :: _ :: t => by
      have := pairUp_length_le t
      simp [pairUp]
      omega

theorem pairUp_length_lt (x y : H) (t : List H) : (pairUp (x :: y :: t)).length < (x :: y :: t).length := by
  have := pairUp_length_le t
  simp [pairUp]
  omega

theorem pairUp_ne_nil (x y : H) (t : List H) : pairUp (x :: y :: t) ≠ [] := by
  simp [pairUp]

/-- the specification function of get_merkle_root (the empty list is outside the contract's precondition) -/
def root : List H → H
  | [] => H.leaf 0
  | [x] => x
  | x :: y :: t => root (pairUp (x :: y :: t))
termination_by l => l.length
decreasing_by exact pairUp_length_lt x y t

theorem root_flat : (n : Nat) → (l : List H) → l.length = n → l ≠ [] → flatten (root l) = flat l := by
  intro n
  induction n using Nat.strongRecOn with
  | _ n ih =>
    intro l hl hne
    match l, hl, hne with
    | [], _, hne => exact absurd rfl hne
    | [x], _, _ => simp [root, flat]
    | x :: y :: t, hl, _ =>
      rw [root]
      have hlt := pairUp_length_lt x y t
      have := ih (pairUp (x :: y :: t)).length (by omega) (pairUp (x :: y :: t)) rfl (pairUp_ne_nil x y t)
      rw [this, pairUp_flat]

theorem flat_leaves : (ids : List Nat) → flat (ids.map H.leaf) = ids
  | [] => rfl
  | i :: t => by simp [flat, flatten, flat_leaves t]

/-- the commitment binds the ordered list of ids -/
theorem root_injective (a b : List Nat) (ha : a ≠ []) (hb : b ≠ [])
    (h : root (a.map H.leaf) = root (b.map H.leaf)) : a = b := by
  have ha' : a.map H.leaf ≠ [] := by simpa using ha
  have hb' : b.map H.leaf ≠ [] := by simpa using hb
  have h1 := root_flat _ (a.map H.leaf) rfl ha'
  have h2 := root_flat _ (b.map H.leaf) rfl hb'
  rw [flat_leaves] at h1
  rw [flat_leaves] at h2
  rw [← h1, ← h2, h]

/-- in particular: duplicating the last entry (the construction exploitable in Bitcoin's tree) changes the commitment -/
theorem duplicate_last_changes (a : List Nat) (x : Nat) :
    root ((a ++ [x]).map H.leaf) ≠ root ((a ++ [x, x]).map H.leaf) := by
  intro h
  have := root_injective (a ++ [x]) (a ++ [x, x]) (by simp) (by simp) h
  have hlen := congrArg List.length this
  simp at hlen

end Merkle
